"""./vf setup: builds everything the checks need, offline, from files on disk."""
from .tools import build_probe, build_bins, log, CACHE, WORK


def main():
    CACHE.mkdir(exist_ok=True)
    WORK.mkdir(exist_ok=True)
    build_probe("release")
    build_probe("dev")
    build_bins("release")
    log("setup done")
