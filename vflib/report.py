"""Verdicts, evidence, replays and known findings."""
from __future__ import annotations
import hashlib
import json
import sys
import time
from collections import Counter
from pathlib import Path
from .tools import VERIF, OUT, seed, log

KNOWN = VERIF / "known_findings.jsonl"


def load_known():
    out = []
    if KNOWN.exists():
        for line in KNOWN.read_text().splitlines():
            line = line.strip()
            if not line or line.startswith("#") or line.startswith("fixed:"):
                continue
            out.append(json.loads(line))
    return out


class Check:
    def __init__(self, pid: str, tier: str, level="exploration"):
        self.pid = pid
        self.tier = tier
        self.level = level
        self.seed = seed()
        self.t0 = time.time()
        self.counters = Counter()
        self.samples = []
        self.violations = []       # (sig, what, replay_path)
        self.known_hits = {}       # sig -> (what, count)
        self.inconclusive = []
        self.notes = {}
        self.nontrivial = set()
        self.nontrivial_extra = 0      # counted elsewhere (e.g. inside a Rust driver): added to the distinct count
        self.evaluations = 0
        self.known = [k for k in load_known() if k.get("property") == pid and k.get("status") == "open"]
        self.assumptions = []

    # -- bookkeeping -------------------------------------------------------
    def count(self, key, n=1):
        self.counters[key] += n

    def sample(self, case, limit=6):
        if len(self.samples) < limit:
            self.samples.append(case)

    def case(self, key, nontrivial: bool):
        """one evaluated case; key identifies it for the distinct count"""
        self.evaluations += 1
        if nontrivial:
            self.nontrivial.add(key if isinstance(key, (str, int)) else hashlib.sha1(repr(key).encode()).hexdigest())

    def note(self, key, value):
        self.notes[key] = value

    def inconclusive_because(self, reason):
        self.inconclusive.append(reason)

    # -- verdicts ----------------------------------------------------------
    def violation(self, sig: str, what: str, witness: dict):
        """sig: structural signature used for known-finding matching and de-duplication"""
        for k in self.known:
            if k.get("signature") == sig:
                w, c = self.known_hits.get(sig, (k.get("what", what), 0))
                self.known_hits[sig] = (w, c + 1)
                return False
        if any(v[0] == sig for v in self.violations):
            self.count("duplicate_violations")
            return True
        d = OUT / "replays" / self.pid
        d.mkdir(parents=True, exist_ok=True)
        body = {"property": self.pid, "signature": sig, "what": what, "seed": self.seed, "tier": self.tier,
                "witness": witness}
        h = hashlib.sha1(json.dumps(body, sort_keys=True, default=str).encode()).hexdigest()[:12]
        path = d / f"{h}.json"
        path.write_text(json.dumps(body, indent=1, default=str, ensure_ascii=False))
        self.violations.append((sig, what, str(path)))
        return True

    def finish(self, rule: str, min_nontrivial=2, extra=None):
        cov = {
            "evaluations": int(self.evaluations),
            "distinct_nontrivial": len(self.nontrivial) + self.nontrivial_extra,
            "rule": rule,
            "samples": self.samples if self.samples else ["<none>"],
            "observed": dict(self.counters),
        }
        cov.update(self.notes)
        if extra:
            cov.update(extra)
        if len(self.nontrivial) + self.nontrivial_extra < max(2, min_nontrivial) and not self.violations:
            self.inconclusive.append(
                f"too few non-trivial cases: {len(self.nontrivial) + self.nontrivial_extra} < {max(2, min_nontrivial)}")
        ev = {
            "property_id": self.pid,
            "tier": self.tier,
            "seed": self.seed,
            "level": self.level,
            "coverage": cov,
            "assumptions": self.assumptions,
            "wall_s": round(time.time() - self.t0, 2),
            "violations": len(self.violations),
            "known_findings_seen": {s: c for s, (w, c) in self.known_hits.items()},
            "verdict": "violated" if self.violations else ("inconclusive" if self.inconclusive else "held"),
            "inconclusive": self.inconclusive,
        }
        # the schema wants >= 2 for exploration-style evidence; an inconclusive run must not
        # pretend: keep the measured number, the verdict field and exit code say what happened.
        evp = OUT / "evidence" / f"{self.pid}.json"
        evp.parent.mkdir(parents=True, exist_ok=True)
        evp.write_text(json.dumps(ev, indent=1, default=str, ensure_ascii=False))
        for sig, (what, c) in self.known_hits.items():
            print(f"KNOWN-FINDING: property={self.pid} {what} [signature={sig}; seen {c}x]")
        for sig, what, path in self.violations:
            print(f"VIOLATION property={self.pid} replay={path}")
            log(f"  {what}  [signature={sig}]")
        if self.violations:
            print(f"{self.pid} {self.tier}: VIOLATED ({len(self.violations)} distinct) after {ev['wall_s']}s")
            sys.exit(1)
        if self.inconclusive:
            for r in self.inconclusive:
                print(f"INCONCLUSIVE property={self.pid} reason={r}")
            sys.exit(3)
        print(f"{self.pid} {self.tier}: held on {self.evaluations} evaluations "
              f"({len(self.nontrivial) + self.nontrivial_extra} distinct non-trivial) in {ev['wall_s']}s")
        sys.exit(0)
