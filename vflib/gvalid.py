"""G-valid: random grammar models biased to be *accepted* by lelwel, for the parser-behaviour
properties (C01-C08, C11, C15, C16) and for C14.

Acceptance is pursued constructively (alternation branches and loop bodies usually start with a
token that is unique to them) and then enforced by the harness's own references (R-sets / R-conf),
never by lelwel: a grammar the references find conflict-free but lelwel rejects is a C10 case.

Feature dials are recorded per grammar in `meta['features']` (coverage evidence).  Shapes that are
known to trip a defect (DESIGN §4) are only produced when the corresponding bucket is requested,
so that the main population stays informative.
"""
from __future__ import annotations
import random
from .model import (Grammar, Rule, N, name, sym, concat, alt, choice, star, plus, opt, paren, pred, action,
                    assertion, rename, elide, marker, create, commit, ret, parenthesize)
from .refsets import RefSets
from .checks.c10 import expected as conf_expected, pratt_info

SYMBOLS = ["+", "-", "*", "/", "(", ")", ",", ";", "=", "==", "if", "else", "fn", "->", "<id>", "<num>", "'",
           "\\", "é", "{", "}", "?", ":", "&&", "let"]

DEFAULT = dict(
    p_pratt=0.30, p_choice=0.30, p_user_pred=0.15, p_true_pred=0.10, p_action=0.25, p_assert=0.15,
    p_rename=0.30, p_elide=0.35, p_marker=0.30, p_whole_create=0.25, p_return=0.15, p_parts=0.30,
    p_skip=0.70, p_symbols=0.5, max_rules=6, max_depth=3,
)


class Ctx:
    """generation context inside one rule"""

    def __init__(self, rule, is_start, pratt=False):
        self.rule = rule
        self.is_start = is_start
        self.pratt = pratt
        self.in_choice = False       # inside a choice alternative before commit (no actions / no nested choice)
        self.elide_mode = "none"     # none | uncond | cond
        self.next_marker = 1
        self.pending = 0             # markers opened and not yet created in the current concat nesting
        self.features = set()


class GValid:
    def __init__(self, rng: random.Random, cfg=None, bucket=None):
        self.rng = rng
        self.cfg = dict(DEFAULT)
        if cfg:
            self.cfg.update(cfg)
        self.bucket = bucket

    # ------------------------------------------------------------------
    def grammar(self, max_tries=60):
        for _ in range(max_tries):
            try:
                g, meta = self._attempt()
            except _Retry:
                continue
            rs = RefSets(g)
            if not rs.is_reduced():
                continue
            must, dont, _ = conf_expected(g, rs)
            if must or dont:
                continue
            if bad_left_recursion(g, rs):
                continue
            if not self.bucket and shape_hazards(g, rs):
                continue
            meta["refsets"] = rs
            return g, meta
        return None, None

    # ------------------------------------------------------------------
    def _attempt(self):
        rng, cfg = self.rng, self.cfg
        self.uniq = 0
        ntok = rng.randint(3, 8)
        self.toks = [f"T{i}" for i in range(ntok)]
        self.extra = []          # unique leading tokens created on demand
        nr = rng.randint(1, cfg["max_rules"])
        self.rnames = ["s"] + [f"r{i}" for i in range(1, nr)]
        self.pratt_rules = set()
        for nm in self.rnames[1:]:
            if rng.random() < cfg["p_pratt"]:
                self.pratt_rules.add(nm)
        # rules that may be called inside ordered-choice alternatives: no actions, no choices inside
        self.choice_safe = set(nm for nm in self.rnames[1:] if rng.random() < 0.5)
        self.referenced = set()
        self.node_names = ["n0", "n1", "n_x"]
        self.features = set()
        self.right = set()
        rules = []
        for i, nm in enumerate(self.rnames):
            later = self.rnames[i + 1:]
            cx = Ctx(nm, i == 0, nm in self.pratt_rules)
            if nm in self.choice_safe:
                cx.choice_safe_rule = True
            else:
                cx.choice_safe_rule = False
            self.later = later
            if cx.pratt:
                rx = self._pratt(cx)
                elided = False
            else:
                elided = False
                if not cx.is_start and rng.random() < cfg["p_elide"]:
                    cx.elide_mode = rng.choice(["uncond", "cond", "cond"])
                    cx.elide_left = rng.choice([1, 1, 2])
                    elided = cx.elide_mode == "uncond"
                rx = self._regex(cx, cfg["max_depth"], top=True)
                if cx.elide_mode == "cond" and "elide_atom" not in cx.features:
                    cx.elide_mode = "none"
                if elided:
                    self.features.add("rule_elided")
            self.features |= cx.features
            rules.append(Rule(nm, parenthesize(rx), elided))
        # a rule nobody refers to is only legal as a `part` (entry point of its own)
        self.unref = [nm for nm in self.rnames[1:] if nm not in self.referenced]
        if len(self.unref) > 1 or (self.unref and rng.random() < 0.5):
            raise _Retry()
        # declarations
        alltoks = self.toks + self.extra
        decl_tokens = []
        symbols = list(SYMBOLS)
        rng.shuffle(symbols)
        self.sym_of = {}
        for t in alltoks:
            s = None
            if rng.random() < cfg["p_symbols"] and symbols:
                s = symbols.pop()
                self.sym_of[t] = s
            decl_tokens.append((t, s))
        skipped = []
        if rng.random() < cfg["p_skip"]:
            skipped = ["Ws"] if rng.random() < 0.5 else ["Ws", "Cm"]
            self.features.add("skip")
        for t in skipped:
            decl_tokens.append((t, None))
        # some token references by symbol instead of by name
        if self.sym_of:
            for r in rules:
                if r.regex is None:
                    continue
                for n in r.regex.walk():
                    if n.k == "name" and n.v in self.sym_of and rng.random() < 0.4:
                        n.k, n.v = "sym", self.sym_of[n.v]
        parts = []
        if len(self.rnames) > 1 and (rng.random() < cfg["p_parts"] or self.unref):
            cands = [nm for nm in self.rnames[1:] if nm not in self.unref]
            rng.shuffle(cands)
            parts = list(self.unref) + cands[:rng.randint(0 if self.unref else 1, min(2, len(cands)))]
            self.features.add("parts")
            if self.unref:
                self.features.add("unreferenced_part")
        half = len(decl_tokens) // 2
        decls = []
        if half and rng.random() < 0.4:
            decls.append(("token", decl_tokens[:half]))
            decls.append(("token", decl_tokens[half:]))
        else:
            decls.append(("token", decl_tokens))
        if skipped:
            decls.append(("skip", list(skipped)))
        if self.right:
            refs = []
            for t in sorted(self.right):
                if t in self.sym_of and rng.random() < 0.5:
                    from .model import esc_sym
                    refs.append("'" + esc_sym(self.sym_of[t]) + "'")
                else:
                    refs.append(t)
            decls.append(("right", refs))
            self.features.add("right")
        decls.append(("start", "s"))
        if parts:
            decls.append(("part", parts))
        for r in rules:
            decls.append(("rule", r))
        g = Grammar(decls)
        return g, {"features": sorted(self.features), "skipped": skipped}

    # ------------------------------------------------------------------
    def _fresh(self):
        t = f"U{len(self.extra)}"
        self.extra.append(t)
        return t

    def _tok(self):
        return name(self.rng.choice(self.toks))

    def _lead(self, cx=None):
        """leading element of a branch/body: a token that is unique with high probability, sometimes a rule"""
        if cx is not None and self.rng.random() < 0.2:
            rr = self._ruleref(cx, first=True)
            if rr is not None:
                cx.features.add("rule_leads_branch_or_body")
                return rr
        if self.rng.random() < 0.75:
            return name(self._fresh())
        return self._tok()

    def _ruleref(self, cx, first=False):
        rng = self.rng
        cands = list(self.later)
        if cx.in_choice or cx.choice_safe_rule:
            cands = [c for c in cands if c in self.choice_safe]
        elif not first and not cx.is_start and rng.random() < 0.12:
            # recursion behind at least one consumed element (hidden left recursion is filtered later)
            self.features.add("recursion")
            return name(cx.rule)
        if not cands:
            return None
        fresh = [c for c in cands if c not in self.referenced]
        nm = rng.choice(fresh) if fresh and rng.random() < 0.65 else rng.choice(cands)
        self.referenced.add(nm)
        return name(nm)

    def _sem_atoms(self, cx):
        """semantic operators that may be sprinkled at a concatenation position"""
        rng, cfg = self.rng, self.cfg
        out = []
        if rng.random() < cfg["p_action"] * 0.5 and not cx.in_choice and not cx.choice_safe_rule:
            out.append(action(rng.randint(1, 3)))
            cx.features.add("action")
        if rng.random() < cfg["p_assert"] * 0.4:
            out.append(assertion(rng.randint(1, 2)))
            cx.features.add("assertion")
        if rng.random() < cfg["p_rename"] * 0.4 and not cx.is_start:
            out.append(rename(rng.choice(self.node_names + [cx.rule])))
            cx.features.add("rename")
        if (cx.elide_mode == "cond" and getattr(cx, "elide_left", 2) > 0 and rng.random() < 0.3
                and not getattr(cx, "in_left_branch", False)):
            # few `^` per rule, so that one of them is often the only one and sits inside a loop / option / branch:
            # that is where conditional elision differs from unconditional
            out.append(elide())
            cx.elide_left = getattr(cx, "elide_left", 2) - 1
            cx.features.add("elide_atom")
        if (rng.random() < cfg["p_return"] * 0.3 and not cx.is_start and not cx.in_choice and not cx.choice_safe_rule):
            # `&` in a rule shared with an ordered choice: bucket F18
            out.append(ret())
            cx.features.add("return")
        return out

    def _concat(self, cx, depth, lead=None):
        rng, cfg = self.rng, self.cfg
        n = rng.choice([1, 2, 2, 3, 4])
        # marker / creation pair around a slice of the slots (properly nested by construction);
        # decided up front so that nothing generated *inside* the pair inserts before the marker
        # (a whole-rule creation there would leave the marker stale: bucket F2)
        ma = mb = None
        if rng.random() < cfg["p_marker"]:
            ma = rng.randint(0, n - 1)
            mb = rng.randint(ma + 1, n)
        items = []
        if lead is not None:
            items.append(lead)
        mk = None
        for i in range(n):
            if ma is not None and i == ma:
                mk = cx.next_marker
                cx.next_marker += 1
                items.append(marker(mk))
                cx.marker_depth = getattr(cx, "marker_depth", 0) + 1
            r = rng.random()
            if depth > 0 and r < 0.35:
                items.append(self._regex(cx, depth - 1))
            elif r < 0.60:
                rr = self._ruleref(cx, first=(not items))
                items.append(rr if rr is not None else self._tok())
            else:
                items.append(self._tok())
            items.extend(self._sem_atoms(cx))
            if mb is not None and i == mb - 1:
                cx.marker_depth -= 1
                items.append(create(mk, rng.choice(self.node_names + [None])))
                cx.features.add("marker")
                if rng.random() < 0.25:   # second creation for the same marker (nested wrappers)
                    items.append(create(mk, rng.choice(self.node_names)))
                    cx.features.add("marker_twice")
        # whole-rule creation: only in elided rules, never in Pratt rules, never inside a pending marker
        if (not cx.pratt and not cx.in_choice and getattr(cx, "marker_depth", 0) == 0
                and rng.random() < (cfg["p_whole_create"] if cx.elide_mode in ("uncond", "cond") else cfg["p_whole_create"] * 0.3)):
            items.append(create(None, rng.choice(self.node_names + [None, None])))
            cx.features.add("whole_create")
        if len(items) == 1:
            return items[0]
        return concat(*items)

    def _regex(self, cx, depth, top=False):
        rng, cfg = self.rng, self.cfg
        r = rng.random()
        if depth <= 0:
            return self._concat(cx, 0)
        if r < 0.30:
            return self._concat(cx, depth)
        if r < 0.52:
            # alternation: branches start with (mostly unique) tokens
            nb = rng.choice([2, 2, 3])
            ops = []
            for i in range(nb):
                lead = self._lead(cx)
                b = self._concat(cx, depth - 1, lead=lead)
                pr = rng.random()
                if pr < cfg["p_true_pred"]:
                    b = concat(pred("t"), *(b.ops if b.k == "concat" else [b]))
                    cx.features.add("pred_true")
                elif pr < cfg["p_true_pred"] + cfg["p_user_pred"]:
                    b = concat(pred(rng.randint(1, 2)), *(b.ops if b.k == "concat" else [b]))
                    cx.features.add("pred_user")
                ops.append(b)
            cx.features.add("alt")
            return alt(*ops)
        if r < 0.52 + 0.18 * (cfg["p_choice"] / 0.3) and not cx.in_choice and not cx.choice_safe_rule:
            return self._choice(cx, depth)
        # loops / option
        lead = self._lead(cx)
        md = getattr(cx, "marker_depth", 0)
        body = self._concat(cx, depth - 1, lead=lead)
        if rng.random() < 0.35:
            # a body that ends in something nullable: the loop-back edge of the follow sets decides whether
            # the next iteration's first token is accepted after a short iteration
            tail = opt(self._lead()) if rng.random() < 0.6 else star(self._lead())
            body = concat(*(body.ops if body.k == "concat" else [body]), tail)
            cx.features.add("loop_body_nullable_tail")
        pr = rng.random()
        if pr < cfg["p_true_pred"] * 0.5:
            body = concat(pred("t"), *(body.ops if body.k == "concat" else [body]))
            cx.features.add("pred_true")
        elif pr < cfg["p_true_pred"] * 0.5 + cfg["p_user_pred"] * 0.7:
            body = concat(pred(rng.randint(1, 2)), *(body.ops if body.k == "concat" else [body]))
            cx.features.add("pred_user")
        k = rng.random()
        if k < 0.4:
            cx.features.add("star")
            return star(body)
        if k < 0.6:
            cx.features.add("plus")
            return plus(body)
        cx.features.add("opt")
        return opt(body)

    def _choice(self, cx, depth):
        """ordered choice whose alternatives share a prefix, so that backtracking really happens"""
        rng = self.rng
        cx.in_choice = True
        try:
            prefix = []
            for _ in range(rng.randint(1, 2)):
                rr = self._ruleref(cx) if rng.random() < 0.5 else None
                prefix.append(rr if rr is not None else self._tok())
            nalt = rng.choice([2, 3, 3])
            alts = []
            for i in range(nalt):
                last = i == nalt - 1
                items = [p.clone() for p in prefix]
                if rng.random() < 0.25 and not last:
                    # an alternative that diverges inside a loop
                    items.append(star(self._concat(cx, 0, lead=self._lead())))
                tail = []
                for _ in range(rng.randint(1, 2)):
                    rr = self._ruleref(cx) if rng.random() < 0.3 else None
                    tail.append(rr if rr is not None else self._tok())
                if not last and rng.random() < 0.4:
                    pos = rng.randint(0, len(tail))
                    tail.insert(pos, commit())
                    cx.features.add("commit")
                if rng.random() < 0.2:
                    tail.insert(rng.randint(0, len(tail)), assertion(rng.randint(1, 2)))
                    cx.features.add("assertion_in_choice")
                if rng.random() < 0.3 and not cx.is_start:
                    # anywhere in the alternative: a rename (or `^`) that runs *before* the point where the attempt
                    # fails is state the abandoned attempt must not leave behind
                    tail.insert(rng.randint(0, len(tail)), rename(rng.choice(self.node_names)))
                    cx.features.add("rename_in_choice")
                if cx.elide_mode == "cond" and not last and rng.random() < 0.6:
                    tail.insert(rng.randint(0, len(tail)), elide())
                    cx.features.add("elide_atom")
                    cx.features.add("elide_in_choice")
                items += tail
                alts.append(concat(*items))
            if rng.random() < 0.2:
                # last alternative that can match the empty word (taken after an abandoned attempt without consuming anything)
                alts[-1] = opt(concat(self._lead(), self._tok())) if rng.random() < 0.5 else opt(self._lead())
                cx.features.add("choice_nullable_last")
            cx.features.add("choice")
            return choice(*alts)
        finally:
            cx.in_choice = False

    def _pratt(self, cx):
        """directly left-recursive rule: infix / prefix / postfix / mixfix / ternary branches"""
        rng = self.rng
        nm = cx.rule
        nb = rng.randint(1, 4)
        branches = []
        self_ = lambda: name(nm)
        all_right = rng.random() < 0.3
        for _ in range(nb):
            kind = rng.random()
            nops = rng.choice([1, 1, 2, 3])
            op_toks = [self._fresh() for _ in range(nops)]
            opnode = name(op_toks[0]) if nops == 1 else paren(alt(*[name(t) for t in op_toks]))
            if kind < 0.55:
                b = [self_(), opnode, self_()]
                cx.features.add("pratt_infix")
                if all_right or rng.random() < 0.3:
                    self.right |= set(op_toks)   # every operator token of the branch (no mixing: E020)
                    cx.features.add("pratt_right")
            elif kind < 0.70:
                b = [opnode, self_()]
                cx.features.add("pratt_prefix")
            elif kind < 0.82:
                b = [self_(), opnode]
                cx.features.add("pratt_postfix")
            elif kind < 0.92:
                t2 = name(self._fresh())
                b = [self_(), opnode, self_(), t2, self_()]
                cx.features.add("pratt_ternary")
                if rng.random() < 0.5:
                    self.right |= set(op_toks)
            else:
                t2 = name(self._fresh())
                rr = self._ruleref(cx)
                b = [self_(), opnode, rr if rr is not None else self._tok(), t2]
                cx.features.add("pratt_mixfix")
            if rng.random() < self.cfg["p_rename"]:
                b.append(rename(rng.choice(self.node_names)))
                cx.features.add("rename")
            if rng.random() < self.cfg["p_action"] * 0.4 and not cx.choice_safe_rule:
                b.append(action(rng.randint(1, 2)))
                cx.features.add("action")
            branches.append(concat(*b))
        # atoms
        na = rng.randint(1, 3)
        for i in range(na):
            a = rng.random()
            lead = name(self._fresh())
            if a < 0.45:
                b = [lead]
            elif a < 0.75:
                b = [lead, self_(), name(self._fresh())]
                cx.features.add("pratt_paren_atom")
            else:
                rr = self._ruleref(cx)
                b = [lead] + ([rr] if rr is not None else [])
            if rng.random() < self.cfg["p_rename"]:
                b.append(rename(rng.choice(self.node_names)))
            elif rng.random() < 0.15:
                b.append(elide())
                cx.features.add("pratt_atom_elide")
            branches.append(concat(*b) if len(b) > 1 else b[0])
        cx.features.add("pratt")
        if len(branches) < 2:
            branches.append(name(self._fresh()))
        return alt(*branches)


class _Retry(Exception):
    pass


def bad_left_recursion(g: Grammar, rs: RefSets) -> bool:
    """True if some rule can reach itself through left corners other than the leading self reference
    of a Pratt branch (hidden / indirect left recursion recurses without consuming input)."""
    b = rs.bnf
    skip_edges = set()
    for r in g.rules:
        pi = pratt_info(r)
        if not pi:
            continue
        for br, eff in pi["left"]:
            skip_edges.add(rs.node_nt[id(eff[0][1])])
    lc = {}
    for x in range(len(b.prods)):
        for rhs in b.prods[x]:
            for s in rhs:
                if isinstance(s, str):
                    break
                if s not in skip_edges:
                    lc.setdefault(x, set()).add(s)
                if not rs.nullable_nt[s]:
                    break
    for nm, nt in rs.rule_nt.items():
        seen = set()
        st = list(lc.get(nt, ()))
        while st:
            y = st.pop()
            if y == nt:
                return True
            if y in seen:
                continue
            seen.add(y)
            st.extend(lc.get(y, ()))
    return False


def shape_hazards(g: Grammar, rs: RefSets):
    """shapes the main population stays away from (each has its own bucket, DESIGN §4):
       F3  user-predicate-guarded alternation branch whose predict holds an end-of-input token
       F5  rename / creation in the start rule; rule reachable only from a part; nullable guarded loop body
    returns the list of hazard names found"""
    out = []
    start = g.start
    eofs = set(rs.entry_eof.values())
    for r in g.rules:
        if r.regex is None:
            out.append("empty_rule")
            continue
        for n in r.regex.walk():
            if n.k == "alt":
                for b in n.ops:
                    bb = b
                    while bb.k == "paren" and bb.ops:
                        bb = bb.ops[0]
                    pass      # (F3: a guarded branch predicted by end of input is repaired: part of the main population now)
            if n.k in ("star", "plus", "opt") and rs.nullable(n.ops[0]):
                out.append("nullable_loop_body")
            if r.name == start and n.k == "rename":
                out.append("rename_in_start_rule")     # compiles since 1129762; what the root is called then is unspecified
    # rules reachable only from a part
    reach = set()
    st = [start]
    rules = {r.name: r for r in g.rules}
    while st:
        nm = st.pop()
        if nm in reach or nm not in rules:
            continue
        reach.add(nm)
        if rules[nm].regex is not None:
            for n in rules[nm].regex.walk():
                if n.k == "name" and n.v[:1].islower():
                    st.append(n.v)
    return out
