"""Analysis campaign driver shared by C09 / C10 / C14: streams G-any grammars through the
real SemanticPass (vprobe) and hands (model, reference sets, observation) to a judge."""
from __future__ import annotations
import random
import time
from .gen import small_grammars, mk_small, AnyGen
from .model import render, LELWEL_KIND
from .refsets import RefSets
from .tools import Probe, pmap, seed, log

LL1_CODES = {"E011", "E012", "E013", "E014", "E015"}


def index_nodes(rep):
    idx = {}
    for nd in rep.get("nodes", []):
        idx[(nd["k"], nd["s"][0], nd["s"][1])] = nd
    return idx


def lookup(idx, n):
    return idx.get((LELWEL_KIND[n.k], n.span[0], n.span[1]))


SEM_SKIPPED = ("pred", "rename", "elide", "action")


def self_only_branches(g):
    """Branches of a rule-level alternation that are a concatenation holding, besides predicates /
    renames / elisions / actions, nothing but a reference to the rule itself (`e: ?1 e | A;`,
    `e: e #1 | A;`): the production e -> e.  Since 60ce2c1 lelwel rejects such a branch with E015
    during its general check, i.e. *before* any first/follow/predict set is computed."""
    out = []
    for r in g.rules:
        rx = r.regex
        if rx is None or rx.k != "alt":
            continue
        for b in rx.ops:
            if b.k != "concat":
                continue
            eff = [o for o in b.ops if o.k not in SEM_SKIPPED]
            if len(eff) == 1 and eff[0].k == "name" and eff[0].v == r.name:
                out.append(b)
    return out


def rejected_before_analysis(g, rep):
    """True iff the model has a self-only left-recursive branch *and* lelwel reported E015 with exactly
    that branch as primary span: the grammar was rejected by the general check, the LL(1) stage (which
    computes the sets) did not run.  Both conditions are required so that sets missing for any other
    reason stay visible to the judges."""
    spans = {tuple(b.span) for b in self_only_branches(g)}
    if not spans:
        return False
    for d in rep["diags"]:
        if d["code"] == "E015" and d["sev"] == "error":
            for l in d["labels"]:
                if l["primary"] and (l["s"], l["e"]) in spans:
                    return True
    return False


def plan(tier: str):
    """list of work units: ('small', kwargs) enumerations and ('random', count)"""
    if tier == "quick":
        return {
            "small": [dict(max_total=6, ntokens=2, nrules=2, with_parts=True),
                      dict(max_total=5, ntokens=3, nrules=1)],
            "random": 40000,
            "gvalid": 12000,
            "exhaustive_bound": "2 rules / 2 tokens / <=6 regex nodes, and 1 rule / 3 tokens / <=5 nodes",
        }
    return {
        "small": [dict(max_total=7, ntokens=2, nrules=2, with_parts=True),
                  dict(max_total=6, ntokens=3, nrules=1)],
        "random": 150000,
        "gvalid": 50000,
        "exhaustive_bound": "2 rules / 2 tokens / <=7 regex nodes, and 1 rule / 3 tokens / <=6 nodes",
    }


def _worker(args):
    shard, nshards, tier, sd, judge_name, profile = args
    import importlib
    judge = importlib.import_module(f"vflib.checks.{judge_name}").judge
    pl = plan(tier)
    probe = Probe(profile)
    res = {"viol": [], "counts": {}, "samples": [], "nontrivial": 0, "evals": 0, "keys": []}

    def bump(k, n=1):
        res["counts"][k] = res["counts"].get(k, 0) + n

    def one(g, origin):
        text = render(g)
        rs = RefSets(g)
        if not rs.is_reduced():
            bump("skipped_not_reduced")
            return
        rep = probe.ask("sema", text=text)
        if "died" in rep:
            bump("probe_died")
            res["viol"].append({"sig": "probe-died", "what": f"vprobe died (rc={rep['died']}) on a grammar",
                                "witness": {"grammar": text}, "kind": "died"})
            return
        if rep.get("panic"):
            bump("panic_observed")
            res["viol"].append({"sig": "panic:" + rep["panic"]["loc"], "what": "panic in parse/SemanticPass: "
                                + rep["panic"]["msg"][:100], "witness": {"grammar": text, "panic": rep["panic"]},
                                "kind": "panic"})
            return
        if rep["n_syntax"]:
            bump("harness_syntax_error")
            res["viol"].append({"sig": "harness-syntax", "what": "rendered model drew a syntax error",
                                "witness": {"grammar": text, "diags": rep["diags"][:3]}, "kind": "harness"})
            return
        codes = [d["code"] for d in rep["diags"] if d["sev"] == "error"]
        if any(c not in LL1_CODES for c in codes):
            bump("skipped_name_resolution_error")
            for c in set(codes) - LL1_CODES:
                bump("skip_code_" + str(c))
            return
        res["evals"] += 1
        bump("origin_" + origin)
        out = judge(g, rs, rep, bump)
        if out.get("skipped"):   # the judge found nothing of its property to observe on this grammar
            res["evals"] -= 1
            return
        if out.get("nontrivial"):
            res["nontrivial"] += 1
            res["keys"].append(hash(text) & 0xFFFFFFFFFFFF)
        for v in out.get("viol", []):
            v.setdefault("witness", {})["grammar"] = text
            res["viol"].append(v)
        if len(res["samples"]) < 3 and out.get("nontrivial") and res["evals"] % 50 == 1:
            res["samples"].append({"grammar": text, **out.get("sample", {})})

    i = 0
    for kw in pl["small"]:
        for spec in small_grammars(**kw):
            if i % nshards == shard:
                one(mk_small(spec), "exhaustive")
            i += 1
    rng = random.Random(sd * 1000003 + shard)
    gen = AnyGen(rng)
    for _ in range(pl["random"] // nshards):
        one(gen.grammar(), "random")
    from .gvalid import GValid
    gv = GValid(random.Random(sd * 7919 + shard))
    for _ in range(pl["gvalid"] // nshards):
        g, meta = gv.grammar()
        if g is not None:
            one(g, "gvalid")
    probe.close()
    res["counts"]["enumerated"] = i
    return res


def run(chk, judge_name: str, profile="release", nshards=16):
    """runs the campaign, feeds results into the Check object"""
    t = time.time()
    sd = seed()
    from .tools import build_probe
    build_probe(profile)  # build once, before forking the shard workers
    results = pmap(_worker, [(s, nshards, chk.tier, sd, judge_name, profile) for s in range(nshards)], nshards)
    keys = set()
    for r in results:
        for k, n in r["counts"].items():
            if k == "enumerated":
                chk.counters[k] = n
            else:
                chk.count(k, n)
        chk.evaluations += r["evals"]
        keys.update(r["keys"])
        for s in r["samples"]:
            chk.sample(s)
        for v in r["viol"]:
            if v.get("kind") == "harness":
                chk.inconclusive_because("harness: " + v["what"] + " e.g. " + v["witness"]["grammar"][:200])
                continue
            if v.get("kind") in ("panic", "died") and not chk.pid == "C12":
                # panics of the front end are C12's business; here they only reduce coverage
                chk.count("grammars_lost_to_front_end_panic")
                chk.sample({"front_end_panic": v["witness"]})
                continue
            chk.violation(v["sig"], v["what"], v["witness"])
    chk.nontrivial.update(keys)
    chk.note("exhaustive_bound", plan(chk.tier)["exhaustive_bound"])
    chk.note("profile", profile)
    log(f"[anacamp] {judge_name}: {chk.evaluations} grammars judged in {time.time() - t:.1f}s")
