"""R-sets: reference nullable / FIRST / FOLLOW / PREDICT for every rule and every
sub-expression occurrence of a grammar *model*.

Algorithm (deliberately different from lelwel's in-place union-until-no-change
over syntax nodes): EBNF -> BNF with one nonterminal per sub-expression
occurrence; nullable by counter-based unit propagation; FIRST as reachability in
the left-corner graph; FOLLOW as reachability in the follow-inheritance graph.
Everything is written from the textbook definitions quoted in property C09.
"""
from __future__ import annotations
from collections import defaultdict, deque
from .model import Grammar, N

EPS = "ɛ"


def pascal(name: str) -> str:
    res, upper = [], True
    for c in name:
        if upper:
            res.append(c.upper())
            upper = False
        elif c == "_":
            upper = True
        else:
            res.append(c)
    return "".join(res)


class BNF:
    """nonterminals are ints; terminals are strings.
    prods[nt] = list of right-hand sides (lists of symbols)."""

    def __init__(self):
        self.prods: list[list[list]] = []
        self.label = []

    def new(self, label):
        self.prods.append([])
        self.label.append(label)
        return len(self.prods) - 1


class RefSets:
    def __init__(self, g: Grammar, textbook_only=False):
        self.g = g
        self.bnf = BNF()
        self.rule_nt = {}
        self.node_nt = {}      # id(node) -> nt
        self.nodes = []        # (node, rule_name)
        self.sym2name = g.sym_to_name()
        self.undefined = []
        for r in g.rules:
            if r.name not in self.rule_nt:
                self.rule_nt[r.name] = self.bnf.new(("rule", r.name))
        seen = set()
        for r in g.rules:
            if r.name in seen:
                continue
            seen.add(r.name)
            nt = self.rule_nt[r.name]
            if r.regex is None:
                self.bnf.prods[nt].append([])
            else:
                self.bnf.prods[nt].append([self._conv(r.regex, r.name)])
        self._solve(textbook_only)

    # ---- EBNF -> BNF -----------------------------------------------------
    def _conv(self, n: N, rule: str) -> int:
        b = self.bnf
        x = b.new(("node", n.k, rule))
        self.node_nt[id(n)] = x
        self.nodes.append((n, rule))
        k = n.k
        P = b.prods[x]
        if k == "name":
            if n.v[:1].islower():
                if n.v in self.rule_nt:
                    P.append([self.rule_nt[n.v]])
                else:
                    self.undefined.append(n.v)
                    P.append([])
            else:
                P.append([n.v])
        elif k == "sym":
            t = self.sym2name.get(n.v)
            if t is None:
                self.undefined.append(n.v)
                P.append([])
            else:
                P.append([t])
        elif k == "concat":
            P.append([self._conv(o, rule) for o in n.ops])
        elif k in ("alt", "choice"):
            for o in n.ops:
                P.append([self._conv(o, rule)])
        elif k == "star":
            y = self._conv(n.ops[0], rule)
            P.append([y, x])
            P.append([])
        elif k == "plus":
            y = self._conv(n.ops[0], rule)
            tail = b.new(("plus_tail", rule))
            P.append([y, tail])
            b.prods[tail].append([y, tail])
            b.prods[tail].append([])
        elif k == "opt":
            y = self._conv(n.ops[0], rule)
            P.append([y])
            P.append([])
        elif k == "paren":
            if n.ops:
                P.append([self._conv(n.ops[0], rule)])
            else:
                P.append([])
        else:  # semantic operators derive the empty word
            P.append([])
        return x

    # ---- analysis --------------------------------------------------------
    def _solve(self, textbook_only):
        b = self.bnf
        n = len(b.prods)
        # nullable: unit propagation with per-production counters of non-nullable NTs
        nullable = [False] * n
        watch = defaultdict(list)
        cnt = {}
        q = deque()
        for x in range(n):
            for pi, rhs in enumerate(b.prods[x]):
                if any(isinstance(s, str) for s in rhs):
                    continue
                nts = [s for s in rhs]
                cnt[(x, pi)] = len(nts)
                if not nts:
                    if not nullable[x]:
                        nullable[x] = True
                        q.append(x)
                for s in nts:
                    watch[s].append((x, pi))
        while q:
            y = q.popleft()
            for (x, pi) in watch[y]:
                cnt[(x, pi)] -= 1
                if cnt[(x, pi)] == 0 and not nullable[x]:
                    nullable[x] = True
                    q.append(x)
        self.nullable_nt = nullable

        # productive (derives some terminal string)
        productive = [False] * n
        changed = True
        while changed:
            changed = False
            for x in range(n):
                if productive[x]:
                    continue
                for rhs in b.prods[x]:
                    if all(isinstance(s, str) or productive[s] for s in rhs):
                        productive[x] = True
                        changed = True
                        break
        self.productive_nt = productive

        # FIRST: left-corner graph
        lc = [set() for _ in range(n)]
        direct_first = [set() for _ in range(n)]
        for x in range(n):
            for rhs in b.prods[x]:
                for s in rhs:
                    if isinstance(s, str):
                        direct_first[x].add(s)
                        break
                    lc[x].add(s)
                    if not nullable[s]:
                        break
        first = [None] * n
        for x in range(n):
            seen = {x}
            st = [x]
            acc = set()
            while st:
                y = st.pop()
                acc |= direct_first[y]
                for z in lc[y]:
                    if z not in seen:
                        seen.add(z)
                        st.append(z)
            first[x] = acc
        self.first_nt = first

        # FOLLOW: direct follow + inheritance edges (Y inherits from X if X -> a Y b, b nullable)
        direct_follow = [set() for _ in range(n)]
        inherit = [set() for _ in range(n)]
        for x in range(n):
            for rhs in b.prods[x]:
                for i, s in enumerate(rhs):
                    if isinstance(s, str):
                        continue
                    rest_nullable = True
                    for t in rhs[i + 1:]:
                        if isinstance(t, str):
                            direct_follow[s].add(t)
                            rest_nullable = False
                            break
                        direct_follow[s] |= first[t]
                        if not nullable[t]:
                            rest_nullable = False
                            break
                    if rest_nullable:
                        inherit[s].add(x)
        start = self.g.start
        self.entry_eof = {}
        conv_extra = set()
        if start in self.rule_nt:
            direct_follow[self.rule_nt[start]].add("EOF")
            self.entry_eof[start] = "EOF"
        for p in self.g.parts:
            if p in self.rule_nt:
                tok = "EOF" + pascal(p)
                direct_follow[self.rule_nt[p]].add(tok)
                self.entry_eof[p] = tok
                conv_extra.add(tok)

        def closure(df):
            out = [None] * n
            for x in range(n):
                seen = {x}
                st = [x]
                acc = set()
                while st:
                    y = st.pop()
                    acc |= df[y]
                    for z in inherit[y]:
                        if z not in seen:
                            seen.add(z)
                            st.append(z)
                out[x] = acc
            return out

        self.follow_nt = closure(direct_follow)
        # lelwel's convention: the start rule's follow additionally holds every EOF<Part>
        if start in self.rule_nt and conv_extra and not textbook_only:
            df2 = [set(s) for s in direct_follow]
            df2[self.rule_nt[start]] |= conv_extra
            self.follow_conv_nt = closure(df2)
        else:
            self.follow_conv_nt = self.follow_nt

        # reachability of rules from the entry points
        reach = set()
        st = [self.rule_nt[e] for e in self.entry_eof]
        while st:
            x = st.pop()
            if x in reach:
                continue
            reach.add(x)
            for rhs in b.prods[x]:
                for s in rhs:
                    if not isinstance(s, str) and s not in reach:
                        st.append(s)
        self.reach_nt = reach

    # ---- public view -----------------------------------------------------
    def _nt(self, x):
        if isinstance(x, N):
            return self.node_nt[id(x)]
        return self.rule_nt[x]

    def nullable(self, x):
        return self.nullable_nt[self._nt(x)]

    def first(self, x):
        nt = self._nt(x)
        s = set(self.first_nt[nt])
        if self.nullable_nt[nt]:
            s.add(EPS)
        return s

    def follow(self, x, conv=False):
        nt = self._nt(x)
        return set((self.follow_conv_nt if conv else self.follow_nt)[nt])

    def predict(self, x, conv=False):
        nt = self._nt(x)
        s = set(self.first_nt[nt])
        if self.nullable_nt[nt]:
            s |= (self.follow_conv_nt if conv else self.follow_nt)[nt]
        return s

    def is_reduced(self):
        """every rule productive and reachable from the start rule or a part; no undefined names"""
        if self.undefined or self.g.start not in self.rule_nt:
            return False
        for nm, nt in self.rule_nt.items():
            if not self.productive_nt[nt] or nt not in self.reach_nt:
                return False
        return True

    def reachable_rule(self, nm):
        return self.rule_nt[nm] in self.reach_nt

    # ---- oracle self-check ------------------------------------------------
    def self_check(self, rng, samples=30, max_depth=12):
        """Definitional lower bound: in random derivations from every entry point,
        the first token of every occurrence is in FIRST, the token right after it
        is in FOLLOW, an occurrence yielding nothing is nullable.  Returns the
        number of (occurrence, fact) pairs checked; raises AssertionError on a
        disagreement (an *oracle* bug)."""
        b = self.bnf
        checked = 0
        # cheapest expansion per NT to terminate derivations
        INF = 10 ** 9
        cost = [INF] * len(b.prods)
        changed = True
        while changed:
            changed = False
            for x in range(len(b.prods)):
                for rhs in b.prods[x]:
                    c = 1
                    for s in rhs:
                        c += 1 if isinstance(s, str) else cost[s]
                        if c >= INF:
                            break
                    if c < cost[x]:
                        cost[x] = c
                        changed = True

        def expand(x, depth, out, occ):
            i = len(out)
            rhss = [r for r in b.prods[x] if all(isinstance(s, str) or cost[s] < INF for s in r)]
            if not rhss:
                raise RuntimeError("unproductive")
            if depth <= 0:
                rhs = min(rhss, key=lambda r: sum(1 if isinstance(s, str) else cost[s] for s in r))
            else:
                rhs = rng.choice(rhss)
            for s in rhs:
                if isinstance(s, str):
                    out.append(s)
                else:
                    expand(s, depth - 1, out, occ)
            occ.append((x, i, len(out)))

        for entry, eof in self.entry_eof.items():
            nt = self.rule_nt[entry]
            if cost[nt] >= INF:
                continue
            for _ in range(samples):
                out, occ = [], []
                expand(nt, rng.randint(2, max_depth), out, occ)
                sent = out + [eof]
                for (x, i, j) in occ:
                    if i == j:
                        assert self.nullable_nt[x], ("nullable", b.label[x])
                    else:
                        assert sent[i] in self.first_nt[x], ("first", b.label[x], sent[i])
                    assert sent[j] in self.follow_nt[x], ("follow", b.label[x], sent[j], sent)
                    checked += 2
        return checked
