"""prints a summary of the cached campaign result: python3 -m vflib.campsum [tier] [--main]"""
import json, glob, sys
tier = sys.argv[1] if len(sys.argv) > 1 and not sys.argv[1].startswith("-") else "quick"
f = sorted(glob.glob(f'/verif/.cache/campaign_{tier}_*.json'))[-1]
d = json.load(open(f))
print(f, 'wall', d.get('wall_s'))
print('evals', d['evals']); print('nontrivial', d['nontrivial'])
for pid, vs in sorted(d['viol'].items()):
    sigs = {}
    for v in vs:
        sigs.setdefault(v['sig'], v)
    print(pid, len(vs))
    for s, v in sigs.items():
        print('   ', s, '|', v['what'][:140])
print({k: [x['reason'] for x in v][:3] for k, v in d['inconclusive'].items()})
for k in ('arena', 'profiles'):
    print(k, d['counts'].get(k))
for pid in ('C01', 'C02', 'C03', 'C04', 'C05', 'C06', 'C07', 'C08', 'C11', 'C16'):
    print(pid, {k: v for k, v in d['counts'].get(pid, {}).items() if not k.startswith('violations_seen')})
if '--wit' in sys.argv:
    want = sys.argv[sys.argv.index('--wit') + 1]
    n = 0
    for pid, vs in d['viol'].items():
        for v in vs:
            if want in v['sig'] and n < 3:
                n += 1
                print('=====', pid, v['sig']); print(v['what'])
                for k, x in v['witness'].items():
                    if k == 'tokens':
                        x = ' '.join(x[:40])
                    print('  ', k, ':', x if k != 'grammar' else '\n' + x)
