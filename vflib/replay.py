"""./vf replay <path>: re-executes the witness of a recorded violation against the current /repo.

The replay file stores the exact input (grammar text / file text) and what was observed and expected
when the violation was recorded.  Replay runs the same real code path through vprobe again and
compares the fresh observation with the stored expectation:
  exit 1 + `VIOLATION property=<id> replay=<path>`   the witness still fails
  exit 0 + `REPLAY property=<id> no longer reproduces`  it does not
  exit 3 + `INCONCLUSIVE ...`                          the stored witness cannot be re-judged mechanically
"""
from __future__ import annotations
import json
import sys
from .tools import Probe


def _node(rep, kind, span):
    from .model import LELWEL_KIND
    for nd in rep.get("nodes", []):
        if nd["k"] == LELWEL_KIND.get(kind, kind) and tuple(nd["s"]) == tuple(span):
            return nd
    return None


def _sema(w, profile="release"):
    p = Probe(profile)
    rep = p.ask("sema", text=w["grammar"])
    p.close()
    return rep


def _c09(sig, w):
    rep = _sema(w)
    if rep.get("panic") or "died" in rep:
        return True, f"front end panics/dies now: {rep.get('panic') or rep}"
    what, kind = sig.split(":", 1)
    nd = _node(rep, kind, w["span"])
    if nd is None:
        return True, "node not found in lelwel's tree"
    if what == "missing-set":
        if all(n["first"] is None for n in rep.get("nodes", [])) and any(d["sev"] == "error" for d in rep["diags"]):
            return None, ("lelwel computed no set at all and reports " + ", ".join(sorted({d["code"] for d in rep["diags"]}))
                          + ": whether that rejection is legitimate needs the harness's grammar model")
        missing = nd["first"] is None or nd["follow"] is None or nd["predict"] is None
        return missing, f"sets at {w['span']}: first={nd['first']} follow={nd['follow']} predict={nd['predict']}"
    key = {"first": "first", "follow": "follow", "predict": "predict", "follow-hover": "follow"}.get(what)
    if key is None or nd[key] is None or "reference" not in w:
        return None, f"signature {sig} has no stored reference to compare with; observation: {nd}"
    got = set(nd[key])
    lo = set(w["reference"])
    hi = set(w.get("reference_with_part_eof_convention", w["reference"]))
    # same tolerance as the check: EOF<Part> convention (hi), ɛ not compared in follow/predict
    if key != "first":
        got.discard("ɛ")
        lo.discard("ɛ")
        hi.discard("ɛ")
        hi |= {t for t in got if t.startswith("EOF") and t != "EOF"} if what != "follow-hover" else set()
    if what == "follow-hover":
        got = {t for t in got if t == "EOF" or not t.startswith("EOF")}
        lo = {t for t in lo if t == "EOF" or not t.startswith("EOF")}
        hi = lo
    bad = not (lo <= got <= hi) if key != "first" else got != lo
    return bad, f"{key} at {w['span']}: lelwel now {sorted(got)}, reference {sorted(lo)}"


def _c10(sig, w):
    rep = _sema(w)
    if rep.get("panic") or "died" in rep:
        return True, f"front end panics/dies now: {rep.get('panic') or rep}"
    got = set()
    for d in rep["diags"]:
        if d["code"] in ("E011", "E012", "E013", "E014"):
            lab = [l for l in d["labels"] if l["primary"]][0]
            got.add((d["code"], (lab["s"], lab["e"])))
    must = {(c, tuple(s)) for c, s in w.get("expected", [])}
    dont = {(c, tuple(s)) for c, s in w.get("dont_care", [])}
    then = {(c, tuple(s)) for c, s in w.get("reported", [])}
    kind, code = sig.split(":")[0], sig.split(":")[1]
    if kind == "missed":
        bad = any(c[0] == code for c in must - got) and got == then
        if got != then:
            bad = any(c[0] == code for c in must - got)
    else:
        bad = any(c[0] == code for c in got - must - dont)
    return bad, f"reported now {sorted(got)}; expected {sorted(must)}; don't-care {sorted(dont)}"


def _c14(sig, w):
    rep = _sema(w)
    if rep.get("panic") or "died" in rep:
        return True, f"front end panics/dies now: {rep.get('panic') or rep}"
    nd = None
    for n in rep.get("nodes", []):
        if tuple(n["s"]) == tuple(w["span"]) and n["k"] in ("star", "plus", "optional"):
            nd = n
    if nd is None:
        return True, "loop/option node not found"
    if sig.startswith("no-recovery-set"):
        return nd["recovery"] is None, f"recovery set now: {nd['recovery']}"
    if "expected" in w:
        return set(nd["recovery"] or []) != set(w["expected"]), f"recovery now {nd['recovery']}, expected {w['expected']}"
    if "follow" in w:
        both = set(nd["recovery"] or []) | set(nd["follow"] or [])
        return "EOF" not in both, f"recovery ∪ follow now {sorted(both)}"
    return None, f"observation: {nd}"


def _text(pid, sig, w):
    profile = w.get("profile", "release")
    p = Probe(profile)
    if pid == "C12":
        rep = p.ask("front", text=w["text"])
        p.close()
        if "died" in rep:
            return True, f"vprobe died (rc={rep['died']})"
        bad = bool(rep.get("panic")) or bool(rep.get("bad_spans")) or bool(rep.get("emit_err"))
        return bad, f"front end ({profile}): {json.dumps(rep, ensure_ascii=False)[:400]}"
    rep = p.ask("format", text=w["text"])
    p.close()
    if "died" in rep:
        return True, f"vprobe died (rc={rep['died']})"
    if rep.get("panic"):
        return True, f"format panics ({profile}): {rep['panic']}"
    if pid == "C18":
        if sig.startswith("nonidem"):
            return rep.get("idempotent") is False, f"syntax_ok={rep.get('syntax_ok')} idempotent={rep.get('idempotent')}"
        return None, "on-disk `llw -f -c` witness: re-run `./vf check C18`"
    if sig.startswith("content") :
        return bool(rep.get("problems")), f"problems now: {rep.get('problems')}"
    if sig.startswith("panic"):
        return False, "no panic now"
    return None, f"observation: problems={rep.get('problems')}"


def main(path):
    body = json.load(open(path))
    pid, sig, w = body["property"], body["signature"], body["witness"]
    print(f"replaying {pid} [{sig}] recorded at seed={body.get('seed')} tier={body.get('tier')}: {body['what']}")
    if pid == "C09" and "grammar" in w and "span" in w:
        bad, info = _c09(sig, w)
    elif pid == "C10" and "grammar" in w:
        bad, info = _c10(sig, w)
    elif pid == "C14" and "grammar" in w and "span" in w:
        bad, info = _c14(sig, w)
    elif pid in ("C12", "C17", "C18") and "text" in w:
        bad, info = _text(pid, sig, w)
    elif pid == "C13" and "text" in w:
        p = Probe("release")
        rep = p.ask("ast", text=w["text"])
        p.close()
        bad, info = None, "ast now: " + json.dumps(rep, ensure_ascii=False)[:600] + " | written: " + json.dumps(w.get("written"), ensure_ascii=False)[:300]
    else:
        bad, info = None, "no replay procedure for this witness shape"
    print("  " + info)
    if bad is None:
        print(f"INCONCLUSIVE property={pid} reason=witness cannot be re-judged mechanically; re-run ./vf check {pid}")
        sys.exit(3)
    if bad:
        print(f"VIOLATION property={pid} replay={path}")
        sys.exit(1)
    print(f"REPLAY property={pid} no longer reproduces")
    sys.exit(0)
