"""./vf replay <path>: re-executes the witness of a recorded violation against the current /repo.

The replay file stores the exact input (grammar text / file text) and what was observed and expected
when the violation was recorded.  Replay runs the same real code path through vprobe again and
compares the fresh observation with the stored expectation:
  exit 1 + `VIOLATION property=<id> replay=<path>`   the witness still fails
  exit 0 + `REPLAY property=<id> no longer reproduces`  it does not
  exit 3 + `INCONCLUSIVE ...`                          the stored witness cannot be re-judged mechanically
"""
from __future__ import annotations
import json
import sys
from .tools import Probe


def _node(rep, kind, span):
    from .model import LELWEL_KIND
    for nd in rep.get("nodes", []):
        if nd["k"] == LELWEL_KIND.get(kind, kind) and tuple(nd["s"]) == tuple(span):
            return nd
    return None


def _sema(w, profile="release"):
    p = Probe(profile)
    rep = p.ask("sema", text=w["grammar"])
    p.close()
    return rep


def _c09(sig, w):
    rep = _sema(w)
    if rep.get("panic") or "died" in rep:
        return True, f"front end panics/dies now: {rep.get('panic') or rep}"
    what, kind = sig.split(":", 1)
    nd = _node(rep, kind, w["span"])
    if nd is None:
        return True, "node not found in lelwel's tree"
    if what == "missing-set":
        if all(n["first"] is None for n in rep.get("nodes", [])) and any(d["sev"] == "error" for d in rep["diags"]):
            return None, ("lelwel computed no set at all and reports " + ", ".join(sorted({d["code"] for d in rep["diags"]}))
                          + ": whether that rejection is legitimate needs the harness's grammar model")
        missing = nd["first"] is None or nd["follow"] is None or nd["predict"] is None
        return missing, f"sets at {w['span']}: first={nd['first']} follow={nd['follow']} predict={nd['predict']}"
    key = {"first": "first", "follow": "follow", "predict": "predict", "follow-hover": "follow"}.get(what)
    if key is None or nd[key] is None or "reference" not in w:
        return None, f"signature {sig} has no stored reference to compare with; observation: {nd}"
    got = set(nd[key])
    lo = set(w["reference"])
    hi = set(w.get("reference_with_part_eof_convention", w["reference"]))
    # same tolerance as the check: EOF<Part> convention (hi), ɛ not compared in follow/predict
    if key != "first":
        got.discard("ɛ")
        lo.discard("ɛ")
        hi.discard("ɛ")
        hi |= {t for t in got if t.startswith("EOF") and t != "EOF"} if what != "follow-hover" else set()
    if what == "follow-hover":
        got = {t for t in got if t == "EOF" or not t.startswith("EOF")}
        lo = {t for t in lo if t == "EOF" or not t.startswith("EOF")}
        hi = lo
    bad = not (lo <= got <= hi) if key != "first" else got != lo
    return bad, f"{key} at {w['span']}: lelwel now {sorted(got)}, reference {sorted(lo)}"


def _c10(sig, w):
    rep = _sema(w)
    if rep.get("panic") or "died" in rep:
        return True, f"front end panics/dies now: {rep.get('panic') or rep}"
    got = set()
    for d in rep["diags"]:
        if d["code"] in ("E011", "E012", "E013", "E014"):
            lab = [l for l in d["labels"] if l["primary"]][0]
            got.add((d["code"], (lab["s"], lab["e"])))
    must = {(c, tuple(s)) for c, s in w.get("expected", [])}
    dont = {(c, tuple(s)) for c, s in w.get("dont_care", [])}
    then = {(c, tuple(s)) for c, s in w.get("reported", [])}
    kind, code = sig.split(":")[0], sig.split(":")[1]
    if kind == "missed":
        bad = any(c[0] == code for c in must - got) and got == then
        if got != then:
            bad = any(c[0] == code for c in must - got)
    else:
        bad = any(c[0] == code for c in got - must - dont)
    return bad, f"reported now {sorted(got)}; expected {sorted(must)}; don't-care {sorted(dont)}"


def _c14(sig, w):
    rep = _sema(w)
    if rep.get("panic") or "died" in rep:
        return True, f"front end panics/dies now: {rep.get('panic') or rep}"
    nd = None
    for n in rep.get("nodes", []):
        if tuple(n["s"]) == tuple(w["span"]) and n["k"] in ("star", "plus", "optional"):
            nd = n
    if nd is None:
        return True, "loop/option node not found"
    if sig.startswith("no-recovery-set"):
        return nd["recovery"] is None, f"recovery set now: {nd['recovery']}"
    if "expected" in w:
        return set(nd["recovery"] or []) != set(w["expected"]), f"recovery now {nd['recovery']}, expected {w['expected']}"
    if "follow" in w:
        both = set(nd["recovery"] or []) | set(nd["follow"] or [])
        return "EOF" not in both, f"recovery ∪ follow now {sorted(both)}"
    return None, f"observation: {nd}"


def _text(pid, sig, w):
    profile = w.get("profile", "release")
    p = Probe(profile)
    if pid == "C12":
        rep = p.ask("front", text=w["text"])
        p.close()
        if "died" in rep:
            return True, f"vprobe died (rc={rep['died']})"
        bad = bool(rep.get("panic")) or bool(rep.get("bad_spans")) or bool(rep.get("emit_err"))
        return bad, f"front end ({profile}): {json.dumps(rep, ensure_ascii=False)[:400]}"
    rep = p.ask("format", text=w["text"])
    p.close()
    if "died" in rep:
        return True, f"vprobe died (rc={rep['died']})"
    if rep.get("panic"):
        return True, f"format panics ({profile}): {rep['panic']}"
    if pid == "C18":
        if sig.startswith("nonidem"):
            return rep.get("idempotent") is False, f"syntax_ok={rep.get('syntax_ok')} idempotent={rep.get('idempotent')}"
        return None, "on-disk `llw -f -c` witness: re-run `./vf check C18`"
    if sig.startswith("content") :
        return bool(rep.get("problems")), f"problems now: {rep.get('problems')}"
    if sig.startswith("panic"):
        return False, "no panic now"
    return None, f"observation: problems={rep.get('problems')}"


ARENA_PIDS = {"C01", "C02", "C03", "C04", "C05", "C06", "C07", "C08", "C11", "C16"}


def _arena(pid, sig, w):
    """re-runs the recorded parse with the parser the current /repo generates (pristine, probed twin and code
    variants in a one-off arena) and re-judges it against what the witness recorded"""
    from .oneoff import run as run_oneoff
    from .campaign import strip_trivia
    from .model import parse_canonical
    toks = w.get("tokens", [])
    if w.get("ntokens", len(toks)) != len(toks):
        return None, "the witness does not hold the whole input"
    g = parse_canonical(w["grammar"])
    trivia = set(g.skipped) | {"Error"}
    base = [t for t in toks if t not in trivia]
    cases = [(w.get("entry", ""), toks, w.get("modes", "11"), _jobseed(w, base)), (w.get("entry", ""), base, w.get("modes", "11"), _jobseed(w, base))]
    out = run_oneoff(w["grammar"], cases, name="replay")
    u = out[0]
    if pid == "C11":
        if sig.startswith("llw-crash"):
            return u.llw_exit not in (0, 1), f"llw exit {u.llw_exit}"
        if sig.startswith("not-compilable") or sig.startswith("bucket="):
            return u.llw_exit == 0 and bool(u.compile_error), f"llw exit {u.llw_exit}, rustc: {(u.compile_error or ['ok'])[0]}"
        if sig.startswith("rejected-but-wrote"):
            return u.llw_exit == 1 and any(f != "g.llw" for f in u.files), f"llw exit {u.llw_exit}, files {u.files}"
        return None, "no replay procedure for this C11 signature"
    if u.llw_exit != 0 or u.compile_error or out[1] is None:
        return None, f"the grammar is not accepted / does not compile any more (llw exit {u.llw_exit}): cannot re-run the parse"
    pr, qr, inc = out[1], out[2], out[3]
    if inc:
        return pid == "C03", f"arena incident: {inc[0]['kind']} rc={inc[0].get('rc')}"
    rec, prec = pr[0], qr[0]
    problems = (rec.get("problems") or []) + (prec.get("problems") or [])
    panic = rec.get("panic") or prec.get("panic")
    info = f"tree={str(rec.get('tree'))[:200]} diags={rec.get('diags')} problems={problems[:3]} panic={panic}"
    if pid == "C03":
        return panic is not None, info
    if panic is not None:
        return True, info
    if pid in ("C01", "C02") or (pid == "C08" and "differs-from" not in sig) or (pid == "C16" and ("peek" in sig)) or (pid == "C06" and "span-outside" in sig):
        return any(p.startswith(pid) for p in problems), info
    nodiag = len(rec.get("diags", [])) == 0
    if pid == "C04":
        if "valid-input-diagnosed" in sig:
            return not nodiag, info
        if "invalid-input-accepted" in sig:
            return nodiag, info
    if pid in ("C05", "C07") and "want" in w:
        got = strip_trivia(rec["tree"], trivia)
        return got != w["want"], f"tree now {got[:300]} | recorded expectation {w['want'][:300]}"
    if pid == "C06":
        syn = [d for d in rec["diags"] if d[2] == 0]
        if "first-error-position" in sig and "want_span" in w:
            return (not syn) or list(syn[0][:2]) != list(w["want_span"]), f"first diagnostic now {syn[:1]}, expected at {w['want_span']}"
        if "not-increasing" in sig:
            return any(not (b[0] > a[0]) for a, b in zip(syn, syn[1:])), info
    if pid == "C16":
        other = pr[1]
        t1, t0 = strip_trivia(rec["tree"], trivia), strip_trivia(other["tree"], trivia)
        if "tree-changes" in sig or sig.startswith("bucket="):
            return t1 != t0, f"with trivia {t1[:200]} | without {t0[:200]}"
        if "diagnostics-change" in sig:
            return len(rec["diags"]) != len(other["diags"]), f"diagnostics with trivia {rec['diags']} | without {other['diags']}"
    if pid == "C08" and "differs-from" in sig:
        import json as _j
        bad = False
        for k_, v_ in out[4].items() if len(out) > 4 else []:
            pass
        return None, "differential witness: re-run ./vf check C08 (the code variants are rebuilt there)"
    return None, "no replay procedure for this signature; observation: " + info


def _jobseed(w, base):
    import hashlib
    hseed = int(hashlib.sha1(repr((w.get("entry", ""), base)).encode()).hexdigest()[:8], 16)
    return int(w.get("seed", 1)) * 7919 + hseed


def main(path):
    body = json.load(open(path))
    pid, sig, w = body["property"], body["signature"], body["witness"]
    print(f"replaying {pid} [{sig}] recorded at seed={body.get('seed')} tier={body.get('tier')}: {body['what']}")
    if pid == "C09" and "grammar" in w and "span" in w:
        bad, info = _c09(sig, w)
    elif pid == "C10" and "grammar" in w:
        bad, info = _c10(sig, w)
    elif pid == "C14" and "grammar" in w and "span" in w:
        bad, info = _c14(sig, w)
    elif pid in ARENA_PIDS and "grammar" in w:
        bad, info = _arena(pid, sig, w)
    elif pid in ("C12", "C17", "C18") and "text" in w:
        bad, info = _text(pid, sig, w)
    elif pid == "C13" and "text" in w:
        p = Probe("release")
        rep = p.ask("ast", text=w["text"])
        p.close()
        bad, info = None, "ast now: " + json.dumps(rep, ensure_ascii=False)[:600] + " | written: " + json.dumps(w.get("written"), ensure_ascii=False)[:300]
    else:
        bad, info = None, "no replay procedure for this witness shape"
    print("  " + info)
    if bad is None:
        print(f"INCONCLUSIVE property={pid} reason=witness cannot be re-judged mechanically; re-run ./vf check {pid}")
        sys.exit(3)
    if bad:
        print(f"VIOLATION property={pid} replay={path}")
        sys.exit(1)
    print(f"REPLAY property={pid} no longer reproduces")
    sys.exit(0)
