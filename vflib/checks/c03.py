"""C03: totality monitors of the arena campaign; thorough tier adds an AddressSanitizer and a Miri pass over
generated parsers (secondary net: the emitted code is safe Rust)."""
from ..report import Check
from . import arena_common


def main(tier):
    def extra(chk: Check):
        if tier != "thorough":
            return
        from .. import sanitize
        res = sanitize.arena_passes()
        chk.note("sanitizers", res)
        a = res.get("asan", {})
        if a.get("error"):
            chk.note("asan_not_run", a["error"])
        else:
            if a.get("n_reports"):
                chk.violation("asan:report", "AddressSanitizer report while running generated parsers: " + (a["reports"] or ["?"])[0][:300], a)
            if a.get("incidents"):
                chk.violation("asan:process-died", "the AddressSanitizer build of an arena died while parsing", a)
        m = res.get("miri", {})
        if m.get("reports"):
            chk.violation("miri:report", "Miri reports while interpreting generated parsers: " + m["reports"][0][:300], m)
        elif m.get("exit") not in (0, None):
            chk.note("miri_inconclusive", m.get("stderr_tail", "")[-300:])
    arena_common.main("C03", tier, extra=extra)
