from .arena_common import main as _main


def main(tier):
    _main("C07", tier)
