"""C19: the tool only writes what it promises and never clobbers hand-edited files.

Every cell of the table (mode flags x pre-existing files x output directory state x grammar verdict) is
executed with the real `llw` in a fresh directory tree  root/{cwd, gram/g.llw, out}  as an unprivileged
user (so that read-only directories really are read-only); the tree is snapshotted (name, sha256, size,
mtime_ns, mode) before and after, and `strace` records every write-intent open / rename / unlink / mkdir,
so that a write outside the tree is seen as well.  The expected effect of each cell is computed from the
property statement and `llw --help`; the grammar verdict (error / no error) comes from the library through
vprobe, not from llw's own output.  `lelwel::build` is exercised through a real build.rs crate.
"""
from __future__ import annotations
import hashlib
import itertools
import os
import random
import re
import shutil
import stat
import subprocess
from pathlib import Path
from ..report import Check
from ..tools import build_bins, Probe, WORK, REPO, ENV, TARGET, log, seed as get_seed, pmap, Inconclusive, rmtree

NOBODY = 65534

GRAMMARS = {
    "accepted": [
        "token A B C;\nstart s;\ns: A t* C;\nt: B;\n",
        "token Num Plus='+' LP='(' RP=')' Ws;\nskip Ws;\nstart s;\ns: e;\ne: e '+' e | Num | '(' e ')';\n",
        "token A B;\nstart s;\npart p;\ns: A [B];\np: B+;\n",
    ],
    "warnings": [
        "token A B Unused;\nstart s;\ns: A t;\nt: B;\nunused_rule: A;\n",
        "token A B;\nstart s;\ns: A t;\nt: ;\n",
    ],
    "syntax_error": [
        "token A B;\nstart s;\ns: A (B ;\n",
        "token A B\nstart s;\ns: A B;\n",
    ],
    "semantic_error": [
        "token A B;\nstart s;\ns: A | A B;\n",          # LL(1) conflict
        "token A B;\nstart s;\ns: A undefined_rule;\n",  # undefined rule
        "token A B;\ns: A B;\n",                         # missing start
        "token A B Unused;\nstart s;\ns: A | A B;\nunused_rule: B;\n",   # an error followed by later warnings
    ],
}
SKELETON = {"lexer.rs": "// my hand-written lexer\nfn keep_me() {}\n", "parser.rs": "// my hand-written callbacks\n"}
OLD_GENERATED = "// an older generated parser\n"


def snapshot(root: Path):
    out = {}
    for dp, dn, fn in os.walk(root):
        for n in dn + fn:
            p = Path(dp) / n
            st = p.lstat()
            rel = str(p.relative_to(root))
            if stat.S_ISDIR(st.st_mode):
                out[rel] = ("dir", stat.S_IMODE(st.st_mode))
            else:
                try:
                    h = hashlib.sha256(p.read_bytes()).hexdigest()[:16]
                except OSError:
                    h = "?"
                out[rel] = ("file", h, st.st_size, st.st_mtime_ns, stat.S_IMODE(st.st_mode))
    return out


def diff(a, b):
    created = sorted(k for k in b if k not in a)
    deleted = sorted(k for k in a if k not in b)
    modified = sorted(k for k in a if k in b and a[k] != b[k])
    return created, deleted, modified


WRITE_RE = re.compile(r'(openat|open|creat|rename|renameat|renameat2|unlink|unlinkat|mkdir|mkdirat|truncate|symlink|link|linkat)\((.*)')


def strace_writes(text: str, root: str):
    """paths that were opened with write intent / created / renamed / removed (successful calls only)"""
    out = []
    for ln in text.splitlines():
        m = WRITE_RE.search(ln)
        if not m or " = -1 " in ln:
            continue
        call, rest = m.group(1), m.group(2)
        if call in ("openat", "open"):
            if not re.search(r"O_WRONLY|O_RDWR|O_CREAT|O_TRUNC|O_APPEND", rest):
                continue
        paths = re.findall(r'"((?:[^"\\]|\\.)*)"', rest)
        for p in paths[:2]:
            if p in ("/dev/null", "/dev/tty") or p.startswith("/proc/") or p.startswith("/dev/pts"):
                continue
            out.append((call, p))
    return out


def cells(tier):
    flags = []
    for check, fmt, graph, short in itertools.product((0, 1), repeat=4):
        for verbose in ((0, 1, 2) if tier == "thorough" else (0, 2)):
            flags.append(dict(check=check, format=fmt, graph=graph, short=short, verbose=verbose))
    pre = ["none", "lexer", "parser", "both", "old_generated", "both+old_generated"]
    outs = ["dot", "dir", "missing", "readonly", "is_file"]
    verdicts = ["accepted", "warnings", "syntax_error", "semantic_error", "missing_input", "invalid_utf8", "input_is_dir"]
    for f in flags:
        for p in pre:
            for o in outs:
                for v in verdicts:
                    yield f, p, o, v


def run_cell(args):
    (idx, f, pre, outk, verdict, gtext, has_error, llw, root, use_strace, NOBODY) = args
    root = Path(root) / f"c{idx}"
    if root.exists():
        shutil.rmtree(root)
    cwd, gram, out = root / "cwd", root / "gram", root / "out"
    for d in (cwd, gram):
        d.mkdir(parents=True)
    gpath = gram / "g.llw"
    if verdict == "missing_input":
        pass
    elif verdict == "invalid_utf8":
        gpath.write_bytes(b"token A;\nstart s;\ns: A;\n\xff\xfe\n")
    elif verdict == "input_is_dir":
        gpath.mkdir()
    else:
        gpath.write_text(gtext)
    if "lexer" in pre or "both" in pre:
        (gram / "lexer.rs").write_text(SKELETON["lexer.rs"])
    if "parser" in pre or "both" in pre:
        (gram / "parser.rs").write_text(SKELETON["parser.rs"])
    outdir = {"dot": cwd, "dir": out, "missing": root / "nowhere" / "out", "readonly": out, "is_file": out}[outk]
    if outk in ("dir", "readonly"):
        out.mkdir()
    if outk == "is_file":
        out.write_text("i am a file\n")
    if "old_generated" in pre and outk in ("dot", "dir", "readonly"):
        (outdir / "generated.rs").write_text(OLD_GENERATED)
    # old mtimes so that a rewrite with identical bytes is still seen
    for dp, dn, fn in os.walk(root):
        for n in fn:
            os.utime(Path(dp) / n, ns=(10 ** 18, 10 ** 18))
    if NOBODY is not None:
        for dp, dn, fn in os.walk(root):
            for n in dn + fn:
                os.chown(Path(dp) / n, NOBODY, NOBODY)
        os.chown(root, NOBODY, NOBODY)
    before = snapshot(root)
    if outk == "readonly":
        os.chmod(out, 0o555)
    argv = [str(llw)]
    if f["check"]:
        argv.append("-c")
    if f["format"]:
        argv.append("-f")
    if f["graph"]:
        argv.append("-g")
    if f["short"]:
        argv.append("-s")
    argv += ["-v"] * f["verbose"]
    if outk != "dot":
        argv += ["-o", str(outdir)]
    argv.append("../gram/g.llw")
    tracef = root.parent / "traces" / f"c{idx}.strace"
    full = (["strace", "-f", "-qq", "-e", "trace=openat,open,creat,rename,renameat,renameat2,unlink,unlinkat,mkdir,mkdirat,truncate,symlink,link,linkat",
             "-o", str(tracef)] if use_strace else []) + argv
    env = dict(ENV)
    env["HOME"] = str(cwd)
    try:
        kw = dict(user=NOBODY, group=NOBODY, extra_groups=[]) if NOBODY is not None else {}
        p = subprocess.run(full, cwd=str(cwd), env=env, stdout=subprocess.PIPE, stderr=subprocess.PIPE, timeout=60, **kw)
        rc, so, se = p.returncode, p.stdout.decode(errors="replace"), p.stderr.decode(errors="replace")
    except subprocess.TimeoutExpired:
        rc, so, se = "timeout", "", ""
    if outk == "readonly":
        os.chmod(out, 0o755)
    after = snapshot(root)
    created, deleted, modified = diff(before, after)
    outside = []
    if use_strace and tracef.exists():
        for call, pth in strace_writes(tracef.read_text(errors="replace"), str(root)):
            ap = pth if pth.startswith("/") else os.path.normpath(str(cwd / pth))
            if not ap.startswith(str(root) + "/"):
                outside.append(f"{call} {pth}")
        tracef.unlink()
    # ---- expected effects -----------------------------------------------------------------
    rel = lambda p: str(Path(p).relative_to(root))
    problems = []
    readable = verdict in ("accepted", "warnings", "syntax_error", "semantic_error")
    allowed_created, allowed_modified = set(), set()
    must_exist = set()
    want_rc = None            # None = don't care
    gen_possible = False
    if not readable:
        want_rc = "nonzero"
    elif f["format"]:
        if f["check"]:
            pass                      # exit status = already formatted (C18 owns it); no file may change
        else:
            allowed_modified.add("gram/g.llw")
            want_rc = 0
    else:
        want_rc = 1 if has_error else 0
        # an existing generated.rs in a read-only directory can still be rewritten (only creating needs the directory)
        gen_possible = outk in ("dot", "dir") or (outk == "readonly" and "old_generated" in pre)
        if not has_error:
            if f["graph"] and not f["check"]:
                allowed_created.add("cwd/parser.gv")
                must_exist.add("cwd/parser.gv")
            if not f["check"]:
                g = rel(outdir / "generated.rs") if outk in ("dot", "dir", "readonly") else None
                if gen_possible:
                    (allowed_modified if "old_generated" in pre else allowed_created).add(g)
                    must_exist.add(g)
                    if pre in ("none", "old_generated"):
                        allowed_created |= {"gram/lexer.rs", "gram/parser.rs"}
                        must_exist |= {"gram/lexer.rs", "gram/parser.rs"}
                else:
                    want_rc = "nonzero"      # the parser cannot be written: an I/O error is reported
    if rc == "timeout":
        return {"idx": idx, "inconclusive": "timeout"}
    if rc < 0 or rc == 101:
        problems.append(("crash", f"llw died with status {rc}: {se[-200:]}"))
    if want_rc == "nonzero" and rc == 0:
        problems.append(("exit-status", "exit status 0 although the input cannot be read / the parser cannot be written"))
    elif want_rc in (0, 1) and rc != want_rc:
        problems.append(("exit-status", f"exit status {rc}, expected {want_rc} (error diagnostic reported by the library: {has_error})"))
    for c in created:
        if c not in allowed_created:
            problems.append(("unexpected-file:" + Path(c).name, f"created {c}"))
    for m in modified:
        if m not in allowed_modified:
            what = "hand-edited skeleton" if Path(m).name in ("lexer.rs", "parser.rs") else "file"
            problems.append(("clobbered:" + Path(m).name, f"modified {what} {m}"))
    for d in deleted:
        problems.append(("deleted:" + Path(d).name, f"deleted {d}"))
    for m in must_exist:
        if m not in after:
            problems.append(("missing-output:" + Path(m).name, f"{m} was not written although no error was reported"))
    if "gram/g.llw" in modified and f["format"] and not f["check"] and readable:
        pass
    for o in outside[:3]:
        problems.append(("write-outside-tree", f"write-intent system call outside the directory tree: {o}"))
    if has_error is False and readable and not f["format"] and not f["check"] and gen_possible and rel(outdir / "generated.rs") in after:
        if after[rel(outdir / "generated.rs")][1] == hashlib.sha256(OLD_GENERATED.encode()).hexdigest()[:16]:
            problems.append(("stale-generated", "generated.rs still holds the old content after a successful run"))
    shutil.rmtree(root, ignore_errors=True)
    return {"idx": idx, "rc": rc, "created": created, "modified": modified, "deleted": deleted, "problems": problems,
            "argv": " ".join(argv[1:]), "stderr": se[-300:], "nontrivial": pre != "none" or verdict != "accepted"}


def build_rs_cells(chk: Check, root: Path):
    """lelwel::build through a real build script: OUT_DIR gets generated.rs iff no error; skeletons next to the grammar iff neither existed"""
    crate = root / "buildcrate"
    n = 0
    for verdict, gtext in (("accepted", GRAMMARS["accepted"][0]), ("semantic_error", GRAMMARS["semantic_error"][0])):
        for pre in ("none", "both", "lexer"):
            if crate.exists():
                shutil.rmtree(crate)
            (crate / "src").mkdir(parents=True)
            (crate / "Cargo.toml").write_text(
                '[package]\nname = "buildcrate"\nversion = "0.0.0"\nedition = "2021"\npublish = false\n\n'
                f'[build-dependencies]\nlelwel = {{ path = "{REPO}" }}\n\n[workspace]\n')
            shutil.copy(REPO / "Cargo.lock", crate / "Cargo.lock")
            (crate / "build.rs").write_text('fn main() { lelwel::build("src/g.llw"); }\n')
            (crate / "src" / "main.rs").write_text("fn main() {}\n")
            (crate / "src" / "g.llw").write_text(gtext)
            if pre in ("both", "lexer"):
                (crate / "src" / "lexer.rs").write_text(SKELETON["lexer.rs"])
            if pre == "both":
                (crate / "src" / "parser.rs").write_text(SKELETON["parser.rs"])
            before = snapshot(crate / "src")
            env = dict(ENV)
            env["CARGO_TARGET_DIR"] = str(TARGET.parent / "target-buildrs")
            r = subprocess.run(["cargo", "build", "--offline"], cwd=str(crate), env=env, stdout=subprocess.PIPE, stderr=subprocess.STDOUT, text=True)
            after = snapshot(crate / "src")
            created, deleted, modified = diff(before, after)
            gens = list((TARGET.parent / "target-buildrs" / "debug" / "build").glob("buildcrate-*/out/generated.rs"))
            key = f"build.rs:{verdict}:{pre}"
            n += 1
            chk.case(key, True)
            wit = {"mode": "lelwel::build via build.rs", "verdict": verdict, "pre_existing": pre, "cargo_exit": r.returncode,
                   "created": created, "modified": modified, "log": r.stdout[-400:]}
            if "could not compile `lelwel`" in r.stdout or "failed to select a version" in r.stdout or "error: no matching package" in r.stdout:
                chk.inconclusive_because("build.rs crate could not be built: " + r.stdout[-200:])
                break
            if verdict == "accepted":
                if r.returncode != 0:
                    chk.violation("build:exit-status", "lelwel::build failed on an accepted grammar", wit)
                want = {"lexer.rs", "parser.rs"} if pre == "none" else set()
                if set(created) != want or modified or deleted:
                    chk.violation("build:file-effects", f"lelwel::build created {created}, modified {modified}, deleted {deleted}; expected created {sorted(want)} only", wit)
                if not gens and r.returncode == 0:
                    chk.violation("build:missing-output", "no generated.rs in OUT_DIR after a successful build script", wit)
            else:
                if r.returncode == 0:
                    chk.violation("build:exit-status", "the build script succeeded although the grammar has an error", wit)
                if created or modified or deleted:
                    chk.violation("build:file-effects", f"lelwel::build touched {created + modified + deleted} although the grammar has an error", wit)
            # OUT_DIR of the next cell must be fresh
            for g in (TARGET.parent / "target-buildrs" / "debug" / "build").glob("buildcrate-*"):
                shutil.rmtree(g, ignore_errors=True)
            chk.count("build_rs_cells")
    if crate.exists():
        shutil.rmtree(crate)
    return n


def main(tier):
    chk = Check("C19", tier)
    bins = build_bins("release")
    llw = bins["llw"]
    rng = random.Random(get_seed())
    pr = Probe("release")
    verdict_of = {}
    for v, gs in GRAMMARS.items():
        for g in gs:
            rep = pr.ask("diags", text=g)
            if "diags" not in rep:
                raise Inconclusive(f"vprobe cannot judge a table grammar: {rep}")
            verdict_of[g] = any(d["sev"] == "error" for d in rep["diags"])
            want = v in ("syntax_error", "semantic_error")
            if verdict_of[g] != want:
                raise Inconclusive(f"table grammar for verdict {v} is judged has_error={verdict_of[g]} by the library")
    pr.close()
    root = WORK / f"c19_{tier}_{get_seed()}"
    if root.exists():
        shutil.rmtree(root)
    root.mkdir(parents=True)
    os.chmod(root, 0o755)
    (root / "traces").mkdir()
    os.chmod(root / "traces", 0o777)
    # the unprivileged user must be able to reach the tree and the binary
    for p in (WORK, WORK.parent):
        try:
            os.chmod(p, os.stat(p).st_mode | 0o055)
        except OSError:
            pass
    have_strace = shutil.which("strace") is not None
    # pre-flight: can the unprivileged user reach the tree and run llw there?  (not when /verif lives under a
    # directory closed to other users)  If not, the table runs as the current user and the read-only cells are dropped.
    global NOBODY
    pf = root / "preflight"
    pf.mkdir()
    if os.geteuid() == 0:
        os.chown(pf, NOBODY, NOBODY)
    (pf / "g.llw").write_text(GRAMMARS["accepted"][0])
    try:
        if os.geteuid() != 0:
            raise OSError("not root")
        r = subprocess.run([str(llw), "-c", "g.llw"], cwd=str(pf), env=ENV, stdout=subprocess.PIPE, stderr=subprocess.PIPE, user=NOBODY, group=NOBODY, extra_groups=[], timeout=60)
        unpriv_ok = r.returncode == 0
    except (OSError, subprocess.SubprocessError):
        unpriv_ok = False
    shutil.rmtree(pf, ignore_errors=True)
    if not unpriv_ok:
        NOBODY = None
        chk.note("unprivileged_user", "uid 65534 cannot run llw inside the work tree here: the table runs as the current user, read-only output cells are left out")
    jobs = []
    allcells = list(cells(tier))
    if tier == "quick":
        # every (flags, verdict) x every (pre, out) is too many for a per-change check: take the full flag x verdict x out
        # table with pre rotating, plus the full pre x out table for the plain generate and check modes
        sel = []
        for i, (f, p, o, v) in enumerate(allcells):
            plain = not f["format"] and not f["short"] and f["verbose"] == 0
            if plain or (hash((f["check"], f["format"], f["graph"], f["short"], f["verbose"], o, v)) + get_seed()) % 6 == ["none", "lexer", "parser", "both", "old_generated", "both+old_generated"].index(p):
                sel.append((f, p, o, v))
        allcells = sel
    if NOBODY is None:
        allcells = [c for c in allcells if c[2] != "readonly"]
    for i, (f, p, o, v) in enumerate(allcells):
        if v in GRAMMARS:
            g = GRAMMARS[v][(i + get_seed()) % len(GRAMMARS[v])]
            he = verdict_of[g]
        else:
            g, he = GRAMMARS["accepted"][0], None
        jobs.append((i, f, p, o, v, g, he, str(llw), str(root), have_strace, NOBODY))
    log(f"[C19] {len(jobs)} cells (strace: {have_strace})")
    results = pmap(run_cell, jobs, 16)
    by_rc = {}
    for (i, f, p, o, v, g, he, _, _, _, _), r in zip(jobs, results):
        if r.get("inconclusive"):
            chk.inconclusive_because(f"cell {r['idx']}: {r['inconclusive']}")
            continue
        key = (tuple(sorted(f.items())), p, o, v, g)
        chk.case(key, r["nontrivial"])
        chk.count("cells")
        chk.count(f"exit_{r['rc']}")
        chk.count("files_created", len(r["created"]))
        chk.count("files_modified", len(r["modified"]))
        if len(chk.samples) < 4 and (r["created"] or r["modified"]):
            chk.sample({"argv": r["argv"], "pre_existing": p, "output_dir": o, "verdict": v, "exit": r["rc"], "created": r["created"], "modified": r["modified"]})
        for cat, what in r["problems"]:
            mode = ("check" if f["check"] else "") + ("format" if f["format"] else "") or "generate"
            sig = f"{cat}:{mode}{':graph' if f['graph'] else ''}"
            chk.violation(sig, f"`llw {r['argv']}` ({v}, pre-existing {p}, output {o}): {what}",
                          {"argv": r["argv"], "pre_existing": p, "output_dir": o, "verdict": v, "grammar": g, "exit": r["rc"],
                           "created": r["created"], "modified": r["modified"], "deleted": r["deleted"], "stderr": r["stderr"]})
    if not have_strace:
        chk.note("strace", "not available: writes outside the directory tree are not observed")
    import time as _t
    t0 = _t.time()
    build_rs_cells(chk, root)
    chk.note("build_rs_wall_s", round(_t.time() - t0, 1))
    rmtree(root)
    chk.assumptions = ["llw is run as uid 65534 so that a read-only output directory is really read-only",
                       "error / no error per table grammar is taken from the library through vprobe (SemanticPass), not from llw's output",
                       "the exit status of `-f -c` is C18's business; here only its file effects are checked"]
    chk.finish("cell = (check, format, graph, short, verbosity) x pre-existing files (none, lexer.rs, parser.rs, both, old generated.rs, both + old "
               "generated.rs) x output directory (default, existing, missing, read-only, is a file) x input verdict (accepted, warnings only, syntax "
               "error, semantic error, missing input, invalid UTF-8, input is a directory) x table grammar; thorough = the whole table, quick = full "
               "table for the plain check/generate/graph modes + a rotating sixth of the rest; plus six lelwel::build cells through a real build.rs. "
               "non-trivial = pre-existing files present or verdict other than accepted; distinct = cell",
               min_nontrivial=200 if tier == "quick" else 2000)
