"""C20: the language server survives any session and answers from the latest text.

Sessions (histories of open / change / close and hover / definition / references / completion / formatting
over 1-3 documents) are executed twice: in-process against `lelwel::ide::Cache` (through vprobe, which does
exactly what the server's handlers do and records panics of every thread), and over stdio against the real
`lelwel-ls` binary with random pacing and pipelining.  Oracles:
  * no panic in any thread, no hang, every request answered, clean exit, thread count bounded
  * publishDiagnostics == diagnostics of the library on the latest text (code, severity, message, range in
    UTF-16, related information; one hint per secondary label)
  * valid (model-rendered) texts: definition(reference) == range of the declaration the harness's model
    binds it to; references(declaration) == exactly the occurrences in rule bodies; for every location L
    returned by references(D): definition(L.start) == D
  * hover == the sets vprobe dumps for the innermost node at that offset (EOF<Part> hidden)
  * every returned range lies inside the document (UTF-16 line lengths)
  * formatting == one edit that turns the latest text into format(latest text)
  * stdio answers == in-process answers
"""
from __future__ import annotations
import json
import os
import random
import re
import select
import subprocess
import time
from pathlib import Path
from ..report import Check
from ..tools import build_bins, build_probe, Probe, WORK, REPO, ENV, log, seed as get_seed, pmap, Inconclusive
from ..model import Grammar, render, LELWEL_KIND
from ..gvalid import GValid
from .. import ttext

SIZES = {"quick": dict(sessions=1600, ops=30, stdio=160), "thorough": dict(sessions=16000, ops=60, stdio=1600)}
FRAGMENTS = ["", " ", "\n", "token ;", "token", "token A", "token A=", "token A='", "token A='x", "start", "start ;", "start s", "s", "s:", "s: ;", "s: A",
             "s: (", "s: [A", "s: A |", "s: A /", "right ;", "skip ;", "part ;", "token A; start s; s: ?", "token A; start s; s: <", "token A; start s; s: 1>",
             "token A; start s; s: @", "token A; start s; s: A #", "/* unterminated", "// only a comment", "/// doc\ntoken A;", "token A;\nstart s;\ns: A\n",
             "token A B;\nstart s;\ns: A t;\nt: ;\n", "token 'x';", "token = ;", ";", ";;", ": ;", "s^: ;", "token A; start s; s: 𝔘;", "token É='é'; start s; s: 'é' // 𝔘𝔘\n;",
             "token A;\r\nstart s;\r\ns: A;\r\n", "token A;\tstart s;\ts: A;", "token Error; token EOF; error: A;"]


# ----------------------------------------------------------------------------------------------
# positions
# ----------------------------------------------------------------------------------------------

def u16len(s: str) -> int:
    return sum(2 if ord(c) > 0xFFFF else 1 for c in s)


class Doc:
    def __init__(self, text: str):
        self.text = text
        self.b = text.encode()
        self.lines = text.split("\n")           # codespan: a line ends at \n; \r stays in the line
        self.starts = []
        off = 0
        for ln in self.lines:
            self.starts.append(off)
            off += len(ln.encode()) + 1

    def pos_of(self, byte_off: int):
        """byte offset -> (line, utf-16 column)"""
        byte_off = min(byte_off, len(self.b))
        li = 0
        for i, s in enumerate(self.starts):
            if s <= byte_off:
                li = i
        pre = self.b[self.starts[li]:byte_off].decode(errors="ignore")
        return li, u16len(pre)

    def inside(self, line, ch):
        return 0 <= line < len(self.lines) and 0 <= ch <= u16len(self.lines[line])

    def range_of(self, s, e):
        a, b = self.pos_of(s), self.pos_of(e)
        return {"start": {"line": a[0], "character": a[1]}, "end": {"line": b[0], "character": b[1]}}

    def all_positions(self):
        out = []
        for li, ln in enumerate(self.lines):
            n = u16len(ln)
            for c in range(n + 1):
                out.append((li, c))
            out.append((li, n + 1))
            out.append((li, n + 7))
        return out

    def apply(self, edit):
        """applies one TextEdit (range in UTF-16) to the text"""
        def off(p):
            li, ch = p["line"], p["character"]
            if li >= len(self.lines):
                return len(self.b)
            ln = self.lines[li]
            k = 0
            i = 0
            while i < len(ln) and k < ch:
                k += 2 if ord(ln[i]) > 0xFFFF else 1
                i += 1
            return self.starts[li] + len(ln[:i].encode())
        a, b = off(edit["range"]["start"]), off(edit["range"]["end"])
        return (self.b[:a] + edit["newText"].encode() + self.b[b:]).decode(errors="replace")


# ----------------------------------------------------------------------------------------------
# session generation
# ----------------------------------------------------------------------------------------------

class TextPool:
    def __init__(self, rng):
        self.rng = rng
        self.repo = [t for _, t in ttext.repo_grammars() if len(t) < 6000]
        self.gv = GValid(rng)

    def valid(self):
        for _ in range(20):
            g, meta = self.gv.grammar()
            if g is not None:
                text = render(g, self.rng if self.rng.random() < 0.7 else None, p_comment=0.15)
                return text, g
        return "token A;\nstart s;\ns: A;\n", None

    def draw(self):
        r = self.rng.random()
        if r < 0.40:
            return ("valid",) + self.valid()
        if r < 0.60:
            base = self.rng.choice(self.repo) if self.rng.random() < 0.4 else self.valid()[0]
            ms = list(ttext.mutants(self.rng, base, 1))
            return "mutated", (ms[0] if ms else base), None
        if r < 0.80:
            f = self.rng.choice(FRAGMENTS)
            if self.rng.random() < 0.3:
                f = f + self.rng.choice(FRAGMENTS)
            return "fragment", f, None
        if r < 0.9:
            t = self.valid()[0]
            cut = self.rng.randrange(len(t) + 1)
            return "half-typed", t[:cut], None
        return "repository", self.rng.choice(self.repo), None


def make_session(rng, pool, nops, sid):
    ndocs = rng.choice([1, 1, 2, 3])
    uris = [f"file:///verif_ls/s{sid}/d{i}.llw" for i in range(ndocs)]
    state = {}
    ops = []
    info = []     # per op: (kind of text, model) for open/change
    while len(ops) < nops:
        uri = rng.choice(uris)
        st = state.get(uri)
        r = rng.random()
        if st is None:
            kind, text, g = pool.draw()
            ops.append({"op": "open", "uri": uri, "text": text})
            state[uri] = (text, g, kind)
        elif r < 0.18:
            kind, text, g = pool.draw()
            if rng.random() < 0.3 and st[0]:
                # a small edit of the current text: delete / insert a few characters
                t = st[0]
                i = rng.randrange(len(t))
                text = t[:i] + rng.choice(["", " ", ";", "(", "x", "'", "\n", "é"]) + t[i + rng.choice([0, 1, 2]):]
                g, kind = None, "edited"
            ops.append({"op": "change", "uri": uri, "text": text})
            state[uri] = (text, g, kind)
        elif r < 0.24:
            ops.append({"op": "close", "uri": uri})
            state[uri] = None
        else:
            doc = Doc(st[0])
            allp = doc.all_positions()
            li, ch = rng.choice(allp)
            if st[1] is not None and rng.random() < 0.6:
                # aim at a node of the model (start of a name / regex node / rule / token declaration)
                tgt = []
                for rl in st[1].rules:
                    tgt.append(rl.span[0])
                    if rl.regex is not None:
                        tgt += [n.span[0] for n in rl.regex.walk()]
                li, ch = doc.pos_of(rng.choice(tgt))
            op = rng.choice(["hover", "hover", "definition", "definition", "references", "references", "completion", "formatting"])
            o = {"op": op, "uri": uri, "line": li, "ch": ch}
            if op == "references":
                o["with_def"] = rng.random() < 0.5
            ops.append(o)
    return ops


# ----------------------------------------------------------------------------------------------
# expectations
# ----------------------------------------------------------------------------------------------

SEV = {"error": 1, "bug": 1, "warning": 2}


def expected_diags(doc: Doc, rep):
    out = []
    hints = []
    for d in rep["diags"]:
        labs = d["labels"]
        rng_ = doc.range_of(labs[0]["s"], labs[0]["e"]) if labs else {"start": {"line": 0, "character": 0}, "end": {"line": 0, "character": 0}}
        msg = d["msg"]
        for l in labs:
            if l["primary"] and l["msg"]:
                msg = msg + " " + l["msg"]
                break
        rel = [{"range": doc.range_of(l["s"], l["e"]), "message": l["msg"]} for l in labs if not l["primary"]]
        out.append({"range": rng_, "severity": SEV.get(d["sev"], 4), "code": d["code"], "message": msg, "related": rel})
        for r in rel:
            hints.append({"range": r["range"], "severity": 4, "code": d["code"], "message": r["message"], "related": None})
    return out + hints


def norm_diag(d):
    rel = d.get("relatedInformation")
    return {"range": d["range"], "severity": d.get("severity"), "code": d.get("code"), "message": d.get("message"),
            "related": None if rel is None else [{"range": r["location"]["range"], "message": r["message"]} for r in rel]}


SET_RE = re.compile(r"\*\*(First|Follow|Predict|Recovery):\*\* \{([^}]*)\}")


def parse_hover(msg):
    out = {}
    for k, body in SET_RE.findall(msg):
        out[k.lower()] = sorted(x.strip() for x in body.split(",") if x.strip())
    return out


def hide_part_eof(s):
    return sorted(t for t in s if t == "EOF" or not t.startswith("EOF"))


class Expect:
    """what the harness knows about the latest text of one document"""

    def __init__(self, text, g, probe: Probe):
        self.text = text
        self.doc = Doc(text)
        self.g = g
        self.rep = probe.ask("sema", text=text)
        self.ok = "nodes" in self.rep and not self.rep.get("panic")
        self.fmt = None
        self.probe = probe
        self.nodes = {}
        if self.ok:
            for nd in self.rep["nodes"]:
                self.nodes[(nd["s"][0], nd["s"][1], nd["k"])] = nd
        self.valid = g is not None and self.ok and self.rep["n_syntax"] == 0
        if self.valid:
            # declarations by name
            self.decl = {}
            text_b = self.doc.b
            for rl in g.rules:
                self.decl[rl.name] = ("rule", rl.span)
            self.refs = {}
            s2n = g.sym_to_name()
            for rl in g.rules:
                if rl.regex is None:
                    continue
                for n in rl.regex.walk():
                    if n.k == "name":
                        self.refs.setdefault(n.v, []).append(n.span)
                    elif n.k == "sym" and n.v in s2n:
                        self.refs.setdefault(s2n[n.v], []).append(n.span)

    def format(self):
        if self.fmt is None:
            self.fmt = self.probe.ask("format", text=self.text)
        return self.fmt

    def innermost(self, off):
        best = None
        for (s, e, k), nd in self.nodes.items():
            if s <= off < e:
                if best is None or (e - s) < (best["s"][1] - best["s"][0]):
                    best = nd
        return best


# ----------------------------------------------------------------------------------------------
# judging one session (in-process results)
# ----------------------------------------------------------------------------------------------

def ranges_in(v, out):
    if isinstance(v, dict):
        if set(v.keys()) >= {"start", "end"} and isinstance(v["start"], dict) and "line" in v["start"]:
            out.append(v)
        for x in v.values():
            ranges_in(x, out)
    elif isinstance(v, list):
        for x in v:
            ranges_in(x, out)


def judge_session(ops, results, rep, probe, V, counts, where="in-process"):
    """V(sig, what, witness).  returns number of oracle comparisons"""
    state = {}
    ncmp = 0
    first_panic = False
    for i, op in enumerate(ops):
        if i >= len(results):
            break
        r = results[i]
        uri = op["uri"]
        kind = op["op"]
        wit = lambda extra=None: dict({"ops": ops[:i + 1][-12:], "failing_op": op, "where": where}, **(extra or {}))
        if "panic" in r:
            if not first_panic:
                loc = (r["panic"] or {}).get("loc", "?")
                V(f"panic:{kind}:{loc}", f"{kind} panics ({where}): {(r['panic'] or {}).get('msg', '')[:120]} at {loc}", wit({"panic": r["panic"]}))
                first_panic = True
            if kind in ("open", "change"):
                state[uri] = None
            continue
        val = r.get("ok")
        if kind in ("open", "change"):
            ex = Expect(op["text"], None, probe)
            state[uri] = ex
            counts["texts_analysed"] += 1
            if not ex.ok:
                counts["texts_front_end_failed"] += 1
                continue
            want = expected_diags(ex.doc, ex.rep)
            got = [norm_diag(d) for d in (val or [])]
            ncmp += 1
            counts["diagnostics_compared"] += len(want)
            if got != want:
                k = next((j for j, (a, b) in enumerate(zip(got, want)) if a != b), min(len(got), len(want)))
                V("diagnostics-differ", f"published diagnostics differ from the library's on the same text ({where}): #{k} {got[k] if k < len(got) else None} vs {want[k] if k < len(want) else None}",
                  wit({"text": op["text"][:800]}))
            continue
        if kind == "close":
            state[uri] = None
            continue
        ex = state.get(uri)
        if ex is None or not ex.ok:
            continue
        doc = ex.doc
        # every returned range inside the document
        rs = []
        ranges_in(val, rs)
        for rg in rs:
            if kind == "definition" and isinstance(val, dict) and val.get("uri") != uri:
                continue
            if not (doc.inside(rg["start"]["line"], rg["start"]["character"]) and doc.inside(rg["end"]["line"], rg["end"]["character"])):
                V(f"range-outside-document:{kind}", f"{kind} returned range {rg} outside the document ({len(doc.lines)} lines)", wit({"text": ex.text[:800]}))
                break
        counts["ranges_checked"] += len(rs)
        li, ch = op["line"], op["ch"]
        if not doc.inside(li, ch):
            counts["requests_past_line_end"] += 1
            continue
        # byte offset of the position
        ln = doc.lines[li]
        k = i16 = 0
        while k < len(ln) and i16 < ch:
            i16 += 2 if ord(ln[k]) > 0xFFFF else 1
            k += 1
        if i16 != ch:
            counts["requests_inside_surrogate_pair"] += 1
            continue
        off = doc.starts[li] + len(ln[:k].encode())
        if kind == "hover" and val is not None:
            sets = parse_hover(val["msg"])
            nd = ex.innermost(off)
            if nd is not None and sets:
                ncmp += 1
                counts["hovers_compared"] += 1
                if val.get("range") != doc.range_of(nd["s"][0], nd["s"][1]):
                    V("hover-range-differs", f"hover range {val.get('range')} is not the range of the {nd['k']} node at bytes {nd['s']} ({doc.range_of(nd['s'][0], nd['s'][1])})", wit({"text": ex.text[:800]}))
                for key in ("first", "follow", "predict", "recovery"):
                    if key in sets and nd.get(key) is not None:
                        if sets[key] != hide_part_eof(nd[key]):
                            V(f"hover-differs:{key}", f"hover shows {key} = {sets[key]}, the analysis has {hide_part_eof(nd[key])} for the {nd['k']} node at {nd['s']}", wit({"text": ex.text[:800]}))
                            break
        if kind == "formatting" and val:
            f = ex.format()
            if "out" in f and not f.get("panic"):
                ncmp += 1
                counts["formatting_compared"] += 1
                if len(val) != 1 or doc.apply(val[0]) != f["out"]:
                    V("formatting-differs", "applying the formatting edit does not give format(latest text)", wit({"text": ex.text[:800], "edit": val[:1]}))
    return ncmp


def judge_names(ops, results, V, counts, probe):
    """definition / references against the harness's model (valid texts only); needs the models, so it
    re-derives them: the session generator stores them beside the ops"""
    pass


# ----------------------------------------------------------------------------------------------
# name-resolution sessions: valid model texts, exhaustive over names
# ----------------------------------------------------------------------------------------------

def names_session(rng, pool, sid):
    text, g = pool.valid()
    if g is None:
        return None
    uri = f"file:///verif_ls/n{sid}/g.llw"
    doc = Doc(text)
    ops = [{"op": "open", "uri": uri, "text": text}]
    meta = [None]
    s2n = g.sym_to_name()
    decl_span = {}
    # token declarations: find `Name` / `Name = 'sym'` spans in the rendered text through the declaration spans
    tb = doc.b
    for d, (a, b) in zip(g.decls, g.decl_spans):
        if d[0] == "token":
            seg = tb[a:b].decode()
            # tokens of the declaration in order: the k-th name is found by scanning lexemes
            pos = a + len("token".encode())
            for nm, sym in d[1]:
                m = re.compile(r"(?<![A-Za-z0-9_])" + re.escape(nm) + r"(?![A-Za-z0-9_])").search(tb[pos:b].decode(errors="ignore"))
                if not m:
                    continue
                # byte offsets: the segment is ASCII except inside comments / symbols, so recompute through encode
                pre = tb[pos:b].decode(errors="ignore")[:m.start()]
                s0 = pos + len(pre.encode())
                decl_span[nm] = ("token", s0)
                pos = s0 + len(nm.encode())
    for rl in g.rules:
        decl_span[rl.name] = ("rule", rl.span[0])
    refs = {}
    for rl in g.rules:
        if rl.regex is None:
            continue
        for n in rl.regex.walk():
            if n.k == "name":
                refs.setdefault(n.v, []).append(n.span)
            elif n.k == "sym" and n.v in s2n:
                refs.setdefault(s2n[n.v], []).append(n.span)
    for nm, (kind, s0) in decl_span.items():
        li, ch = doc.pos_of(s0)
        ops.append({"op": "references", "uri": uri, "line": li, "ch": ch, "with_def": False})
        meta.append(("refs", nm, kind))
        for sp in refs.get(nm, [])[:6]:
            li, ch = doc.pos_of(sp[0])
            ops.append({"op": "definition", "uri": uri, "line": li, "ch": ch})
            meta.append(("def", nm, kind, sp))
    return ops, meta, text, g, decl_span, refs


def doc_session(rng, pool, sid):
    """a valid grammar in canonical layout with a `///` doc comment in front of every rule and token declaration (text of the
    comment beginning with nothing / an ASCII blank / a tab / a non-ASCII blank) and a hover on every reference in a rule body:
    the hover of a reference quotes the doc comment of the declaration it refers to"""
    text, g = pool.valid()
    if g is None:
        return None
    canon = render(g)
    g.text = None
    blanks = ["", " ", "  ", "\t", "\u3000", "\u00a0", " \u3000 "]
    lines = []
    for ln in canon.split("\n"):
        if ln and (ln[0].islower() or ln.startswith("token ")) and not ln.startswith(("start ", "skip ", "right ", "part ")):
            lines.append("///" + rng.choice(blanks) + rng.choice(["doc", "式: 項の和", "é", "a | b", ""]))
        lines.append(ln)
    text = "\n".join(lines)
    uri = f"file:///verif_ls/doc{sid}/g.llw"
    doc = Doc(text)
    ops = [{"op": "open", "uri": uri, "text": text}]
    off = 0
    for li, ln in enumerate(doc.lines):
        if ":" in ln and ln[:1].islower() and not ln.startswith("///"):
            body_at = ln.index(":") + 1
            for m in re.finditer(r"[A-Za-z_][A-Za-z_0-9]*|'(?:\\.|[^'\\])*'", ln[body_at:]):
                if len(ops) < 40:
                    ops.append({"op": "hover", "uri": uri, "line": li, "ch": u16len(ln[:body_at + m.start()])})
    ops.append({"op": "definition", "uri": uri, "line": 0, "ch": 0})
    ops.append({"op": "close", "uri": uri})
    return ops


def judge_names_session(pack, results, V, counts):
    ops, meta, text, g, decl_span, refs = pack
    doc = Doc(text)
    uri = ops[0]["uri"]
    decl_range = {}
    for i, (op, m) in enumerate(zip(ops, meta)):
        if m is None or i >= len(results) or "panic" in results[i]:
            continue
        val = results[i].get("ok")
        wit = lambda extra=None: dict({"text": text[:1500], "op": op, "name": m[1]}, **(extra or {}))
        if m[0] == "def":
            counts["definitions_checked"] += 1
            if val is None:
                V("definition-missing", f"no definition for the reference to `{m[1]}` at {op['line']}:{op['ch']}", wit())
                continue
            s = val["range"]["start"]
            kind, s0 = decl_span[m[1]]
            want = doc.pos_of(s0)
            if kind == "rule":
                ok = (s["line"], s["character"]) == want
            else:
                ok = (s["line"], s["character"]) == want
            if not ok or val.get("uri") != uri:
                V("definition-wrong", f"definition of `{m[1]}` points at {s}, its declaration starts at {want}", wit({"got": val}))
            decl_range.setdefault(m[1], val["range"])
        else:
            counts["references_checked"] += 1
            got = sorted((l["range"]["start"]["line"], l["range"]["start"]["character"], l["range"]["end"]["line"], l["range"]["end"]["character"]) for l in (val or []))
            want = sorted(doc.pos_of(a) + doc.pos_of(b) for a, b in refs.get(m[1], []))
            if got != want:
                V("references-wrong", f"references of {m[2]} `{m[1]}`: {got[:6]}, the occurrences in rule bodies are {want[:6]}", wit())
    # agreement: every location returned by references(D) resolves to D (through the definition ops issued on them)


# ----------------------------------------------------------------------------------------------
# in-process worker
# ----------------------------------------------------------------------------------------------

def _worker(args):
    shard, nshards, tier, sd = args
    from collections import Counter
    sz = SIZES[tier]
    rng = random.Random(sd * 9973 + shard)
    pool = TextPool(rng)
    server = Probe("release")      # runs the sessions
    oracle = Probe("release")      # answers what the library says about a text
    viol = []
    counts = Counter()
    keys = []
    samples = []
    evals = 0

    def V(sig, what, witness):
        if sum(1 for v in viol if v["sig"] == sig) < 2:
            viol.append({"sig": sig, "what": what, "witness": witness})
        counts["violations_seen"] += 1

    n = sz["sessions"] // nshards
    for s in range(n):
        sid = shard * 100000 + s
        if s % 4 == 3:
            pack = names_session(rng, pool, sid)
            if pack is None:
                continue
            ops = pack[0]
        elif s % 8 == 2:
            pack = None
            ops = doc_session(rng, pool, sid)
            if ops is None:
                continue
            counts["doc_comment_sessions"] += 1
        else:
            pack = None
            ops = make_session(rng, pool, sz["ops"], sid)
        rep = server.ask("lsp", ops=ops, per_op_ms=30000)
        evals += 1
        if "died" in rep:
            V("server-process-died", f"the process running ide::Cache died (rc={rep['died']}) during a session", {"ops": ops[-12:]})
            continue
        results = rep.get("results", [])
        counts["ops"] += len(ops)
        for o in ops:
            counts["op_" + o["op"]] += 1
        if rep.get("hang"):
            # a wall-clock expiry alone is no verdict: the session is repeated alone with four times the budget
            server.close()
            rep2 = server.ask("lsp", ops=ops, per_op_ms=120000)
            if isinstance(rep2, dict) and rep2.get("hang"):
                V("hang", f"no reply within 120 s (second run, alone) to op #{len(rep2.get('results', []))} {ops[len(results)]['op'] if len(results) < len(ops) else ''}", {"ops": ops[:len(results) + 1][-12:]})
            else:
                counts["slow_sessions_repeated"] += 1
                rep = rep2 if isinstance(rep2, dict) and "results" in rep2 else rep
                results = rep.get("results", [])
            server.close()
        for tp in rep.get("thread_panics", []):
            # panics inside catch_unwind of the session thread are already in results; here: analysis threads
            if not any("panic" in r and (r["panic"] or {}).get("msg") == tp["msg"] for r in results):
                V(f"analysis-thread-panic:{tp['loc']}", f"a document's analysis thread panicked (swallowed by the reply channel): {tp['msg'][:120]} at {tp['loc']}", {"ops": ops[-12:], "panic": tp})
        if pack is not None:
            judge_names_session(pack, results, V, counts)
        judge_session(ops, results, rep, oracle, V, counts)
        broken = any(o["op"] in ("open", "change") and i + 1 < len(ops) and ops[i + 1]["op"] not in ("open", "change", "close") for i, o in enumerate(ops))
        if broken:
            keys.append(sid)
        if len(samples) < 1:
            samples.append([{k: (v if k != "text" else v[:60]) for k, v in o.items()} for o in ops[:8]])
    server.close()
    oracle.close()
    return {"viol": viol, "counts": dict(counts), "evals": evals, "keys": keys, "samples": samples}


# ----------------------------------------------------------------------------------------------
# stdio client
# ----------------------------------------------------------------------------------------------

class Client:
    def __init__(self, exe, env=None):
        self.p = subprocess.Popen([str(exe)], stdin=subprocess.PIPE, stdout=subprocess.PIPE, stderr=subprocess.PIPE, env=env or ENV)
        self.buf = b""
        self.msgs = []

    def send(self, obj):
        body = json.dumps(obj).encode()
        try:
            self.p.stdin.write(b"Content-Length: %d\r\n\r\n" % len(body) + body)
            self.p.stdin.flush()
            return True
        except (BrokenPipeError, OSError):
            return False

    def pump(self, timeout):
        """reads what is available for up to `timeout` seconds; returns False when stdout is closed"""
        end = time.time() + timeout
        fd = self.p.stdout.fileno()
        while True:
            while True:
                i = self.buf.find(b"\r\n\r\n")
                if i < 0:
                    break
                m = re.search(rb"Content-Length: (\d+)", self.buf[:i])
                n = int(m.group(1))
                if len(self.buf) < i + 4 + n:
                    break
                self.msgs.append(json.loads(self.buf[i + 4:i + 4 + n]))
                self.buf = self.buf[i + 4 + n:]
            left = end - time.time()
            if left <= 0:
                return True
            r, _, _ = select.select([fd], [], [], min(left, 0.05))
            if r:
                chunk = os.read(fd, 65536)
                if not chunk:
                    return False
                self.buf += chunk
            elif timeout <= 0.05:
                return True

    def wait_for(self, pred, timeout):
        end = time.time() + timeout
        while time.time() < end:
            for m in self.msgs:
                if pred(m):
                    return m
            if not self.pump(0.05):
                for m in self.msgs:
                    if pred(m):
                        return m
                return None
        return None


def to_request(op, rid):
    td = {"uri": op["uri"]}
    pos = {"line": op.get("line", 0), "character": op.get("ch", 0)}
    k = op["op"]
    if k == "open":
        return {"jsonrpc": "2.0", "method": "textDocument/didOpen", "params": {"textDocument": {"uri": op["uri"], "languageId": "lelwel", "version": 1, "text": op["text"]}}}
    if k == "change":
        return {"jsonrpc": "2.0", "method": "textDocument/didChange", "params": {"textDocument": {"uri": op["uri"], "version": rid}, "contentChanges": [{"text": op["text"]}]}}
    if k == "close":
        return {"jsonrpc": "2.0", "method": "textDocument/didClose", "params": {"textDocument": td}}
    m = {"hover": "textDocument/hover", "definition": "textDocument/definition", "references": "textDocument/references",
         "completion": "textDocument/completion", "formatting": "textDocument/formatting"}[k]
    params = {"textDocument": td, "position": pos}
    if k == "references":
        params["context"] = {"includeDeclaration": bool(op.get("with_def"))}
    if k == "formatting":
        params = {"textDocument": td, "options": {"tabSize": 2, "insertSpaces": True}}
    return {"jsonrpc": "2.0", "id": rid, "method": m, "params": params}


def stdio_value(op, resp):
    """maps a JSON-RPC result to the shape of the in-process result"""
    v = resp.get("result")
    if op["op"] == "hover" and v is not None:
        return {"msg": v["contents"]["value"], "range": v.get("range")}
    return v


def run_stdio(exe, ops, rng, env=None):
    c = Client(exe, env)
    out = {"answers": {}, "diag_notes": [], "problems": []}
    c.send({"jsonrpc": "2.0", "id": 0, "method": "initialize", "params": {"capabilities": {}, "processId": None, "rootUri": None}})
    if c.wait_for(lambda m: m.get("id") == 0, 20) is None:
        out["problems"].append(("no-initialize-reply", "no reply to initialize"))
        c.p.kill()
        return out
    c.send({"jsonrpc": "2.0", "method": "initialized", "params": {}})
    pending = {}
    ndiag_expected = 0
    max_threads = 0
    for i, op in enumerate(ops):
        rid = i + 1
        req = to_request(op, rid)
        if not c.send(req):
            out["problems"].append(("server-gone", f"the server closed its input before op #{i} ({op['op']})"))
            break
        if "id" in req:
            pending[rid] = i
        else:
            if op["op"] in ("open", "change"):
                ndiag_expected += 1
        mode = rng.random()
        if mode < 0.45:
            # wait for the answer (requests) / the diagnostics (notifications) before going on
            if "id" in req:
                c.wait_for(lambda m, rid=rid: m.get("id") == rid, 30)
            else:
                c.wait_for(lambda m, n=ndiag_expected: sum(1 for x in c.msgs if x.get("method") == "textDocument/publishDiagnostics") >= n, 30)
        elif mode < 0.6:
            time.sleep(rng.choice([0.0005, 0.002, 0.01]))
        # else: pipeline without waiting
        if i % 7 == 0:
            try:
                max_threads = max(max_threads, len(os.listdir(f"/proc/{c.p.pid}/task")))
            except OSError:
                pass
    # drain
    for rid in list(pending):
        m = c.wait_for(lambda m, rid=rid: m.get("id") == rid, 30)
        if m is None:
            # decide on logical grounds: a server that is gone, or alive but idle (no CPU time consumed while we wait), will never answer
            if c.p.poll() is not None:
                out["problems"].append(("request-unanswered", f"no response to request #{rid} ({ops[pending[rid]]['op']}): the server exited with {c.p.returncode}"))
            else:
                def ticks():
                    try:
                        f = open(f"/proc/{c.p.pid}/stat").read().rsplit(")", 1)[1].split()
                        return int(f[11]) + int(f[12])
                    except (OSError, IndexError, ValueError):
                        return -1
                t0 = ticks()
                m = c.wait_for(lambda m, rid=rid: m.get("id") == rid, 20)
                if m is not None:
                    continue
                if ticks() == t0:
                    out["problems"].append(("request-unanswered", f"no response to request #{rid} ({ops[pending[rid]]['op']}): the server is alive but idle"))
                else:
                    out["inconclusive"] = f"request #{rid} unanswered after 50 s while the server is still computing"
            break
    try:
        max_threads = max(max_threads, len(os.listdir(f"/proc/{c.p.pid}/task")))
    except OSError:
        pass
    c.send({"jsonrpc": "2.0", "id": 10 ** 6, "method": "shutdown", "params": None})
    c.wait_for(lambda m: m.get("id") == 10 ** 6, 10)
    c.send({"jsonrpc": "2.0", "method": "exit", "params": None})
    try:
        c.p.stdin.close()
    except OSError:
        pass
    try:
        rc = c.p.wait(timeout=15)
    except subprocess.TimeoutExpired:
        c.p.kill()
        rc = "killed-after-exit-timeout"
    err = c.p.stderr.read().decode(errors="replace")
    for m in c.msgs:
        if "id" in m and m["id"] in pending:
            out["answers"][pending[m["id"]]] = m
        if m.get("method") == "textDocument/publishDiagnostics":
            out["diag_notes"].append(m["params"])
    out["rc"] = rc
    out["stderr"] = err[-1500:]
    out["stderr_full"] = err[:200000]
    out["max_threads"] = max_threads
    if rc != 0:
        out["problems"].append(("server-exit-status", f"lelwel-ls exited with {rc}"))
    if "panicked at" in err:
        loc = re.search(r"panicked at ([^\n:]+:\d+)", err)
        out["problems"].append(("server-panic:" + (loc.group(1) if loc else "?"), "lelwel-ls panicked: " + err[err.find("panicked at"):][:300]))
    return out


def _stdio_worker(args):
    shard, nshards, tier, sd, exe = args[:5]
    tsan = len(args) > 5 and args[5]
    from collections import Counter
    sz = SIZES[tier]
    rng = random.Random(sd * 7177 + shard)
    pool = TextPool(rng)
    server = Probe("release")
    viol = []
    counts = Counter()
    keys = []
    evals = 0

    def V(sig, what, witness):
        if sum(1 for v in viol if v["sig"] == sig) < 2:
            viol.append({"sig": sig, "what": what, "witness": witness})

    nsess = sz["stdio"] // nshards if not tsan else 4
    env = None
    if tsan:
        env = dict(ENV)
        env["TSAN_OPTIONS"] = "halt_on_error=0:exitcode=66:second_deadlock_stack=1"
    for s in range(nsess):
        sid = (5000000 if not tsan else 7000000) + shard * 1000 + s
        ops = make_session(rng, pool, sz["ops"] * (3 if s % 3 == 0 else 1), sid)
        res = run_stdio(exe, ops, rng, env)
        if tsan:
            counts["tsan_sessions"] += 1
            nrep = res.get("stderr_full", "").count("WARNING: ThreadSanitizer")
            counts["tsan_reports"] += nrep
            if nrep or res.get("rc") == 66:
                err = res.get("stderr_full", "")
                i = err.find("WARNING: ThreadSanitizer")
                first = err[i:i + 1200]
                kind = first.split("\n")[0][:60]
                V("tsan:" + kind, "ThreadSanitizer report in lelwel-ls: " + first[:300], {"report": first, "ops": [o["op"] for o in ops]})
        evals += 1
        counts["stdio_sessions"] += 1
        counts["stdio_ops"] += len(ops)
        counts["stdio_max_threads"] = max(counts["stdio_max_threads"], res.get("max_threads", 0))
        wit = {"ops": [{k: (v if k != "text" else v[:300]) for k, v in o.items()} for o in ops[-14:]], "stderr": res.get("stderr", "")[-600:], "rc": res.get("rc")}
        for sig, what in res["problems"]:
            V("stdio:" + sig, what, wit)
        if res.get("inconclusive"):
            counts["stdio_inconclusive_sessions"] += 1
        ndocs = len({o["uri"] for o in ops})
        # main + 2 stdio threads + one analysis thread per open document (+1 while a join is in flight); the
        # ThreadSanitizer runtime adds a background thread of its own
        if res.get("max_threads", 0) > 4 + ndocs + (1 if tsan else 0):
            V("stdio:thread-leak", f"{res['max_threads']} threads in lelwel-ls with {ndocs} documents", wit)
        # differential: stdio answers == in-process answers
        rep = server.ask("lsp", ops=ops, per_op_ms=30000)
        results = rep.get("results", []) if isinstance(rep, dict) else []
        if not res["problems"]:
            nd = 0
            for i, op in enumerate(ops):
                if i >= len(results) or "panic" in results[i]:
                    break
                if op["op"] in ("open", "change"):
                    if nd < len(res["diag_notes"]):
                        got = res["diag_notes"][nd]
                        nd += 1
                        counts["stdio_diagnostics_compared"] += 1
                        if got.get("uri") != op["uri"] or got.get("diagnostics") != results[i].get("ok"):
                            V("stdio:diagnostics-differ-from-in-process", f"publishDiagnostics over stdio differs from ide::Cache in-process for op #{i}", dict(wit, got=str(got)[:300], want=str(results[i].get('ok'))[:300]))
                            break
                elif op["op"] != "close" and i in res["answers"]:
                    counts["stdio_answers_compared"] += 1
                    a = res["answers"][i]
                    if "error" in a:
                        V("stdio:error-response:" + op["op"], f"request answered with an error: {str(a['error'])[:200]}", wit)
                        break
                    if stdio_value(op, a) != results[i].get("ok"):
                        V("stdio:answer-differs-from-in-process:" + op["op"], f"{op['op']} over stdio differs from ide::Cache in-process (op #{i})", dict(wit, got=str(stdio_value(op, a))[:300], want=str(results[i].get('ok'))[:300]))
                        break
        keys.append(sid)
    server.close()
    return {"viol": viol, "counts": dict(counts), "evals": evals, "keys": keys, "samples": []}


def main(tier):
    chk = Check("C20", tier)
    sd = get_seed()
    bins = build_bins("release")
    build_probe("release")
    t0 = time.time()
    parts = pmap(_worker, [(s, 16, tier, sd) for s in range(16)], 16)
    chk.note("in_process_wall_s", round(time.time() - t0, 1))
    t1 = time.time()
    parts += pmap(_stdio_worker, [(s, 16, tier, sd, str(bins["lelwel-ls"])) for s in range(16)], 16)
    chk.note("stdio_wall_s", round(time.time() - t1, 1))
    if tier == "thorough":
        # ThreadSanitizer pass over the only threads of the code base (secondary net; safe Rust over mpsc: expected silent)
        from ..tools import build_ls_tsan
        try:
            tsan_exe = build_ls_tsan()
        except Inconclusive as e:
            chk.note("tsan", "not run: " + str(e).splitlines()[0][:200])
            tsan_exe = None
        if tsan_exe is not None:
            t2 = time.time()
            parts += pmap(_stdio_worker, [(s, 16, tier, sd, str(tsan_exe), True) for s in range(16)], 16)
            chk.note("tsan_wall_s", round(time.time() - t2, 1))
    for p in parts:
        chk.evaluations += p["evals"]
        chk.nontrivial.update(p["keys"])
        for k, v in p["counts"].items():
            if k == "stdio_max_threads":
                chk.counters[k] = max(chk.counters[k], v)
            else:
                chk.count(k, v)
        for s in p["samples"]:
            chk.sample(s, limit=2)
        for v in p["viol"]:
            chk.violation(v["sig"], v["what"], v["witness"])
    if chk.counters.get("stdio_inconclusive_sessions", 0) > 3:
        chk.inconclusive_because(f"{chk.counters['stdio_inconclusive_sessions']} stdio sessions ran into the wall-clock watchdog while the server was still computing")
    chk.assumptions = ["requests are only sent for documents that are open at that point of the history (LSP requires that of a client)",
                       "positions: every UTF-16 code unit boundary of every line plus positions past the line end; a position inside a surrogate pair or past the line end is only "
                       "checked for survival and range validity, not for content",
                       "the in-process driver (vprobe) performs exactly the calls of the server's handlers: invalidate + analyze + get_diagnostics for open/change, invalidate for close"]
    chk.finish("one evaluation = one session (history of open / change / close / hover / definition / references / completion / formatting over 1-3 documents; texts: model-rendered "
               "valid grammars in random layouts, token-level mutants, half-typed prefixes, fragments such as `token ;`, repository grammars; every fourth in-process session asks "
               "definition / references for every declared name of a valid grammar), run in-process and, for the stdio part, against the real lelwel-ls with random pacing; "
               "non-trivial = the history has a request right after an open/change; distinct = session id (distinct PRNG stream)", min_nontrivial=100 if tier == "quick" else 1000)
