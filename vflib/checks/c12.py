"""C12 - the grammar front end accepts any text without panicking and with valid spans."""
from __future__ import annotations
import random
from ..report import Check
from ..tools import WORK
from .. import ttext

RULE = ("texts: (a) every sequence of up to N lexical items of the 41-item alphabet (keywords, punctuators, identifiers, "
        "strings, ?1 ?t #1 !1 @x @ <1 1>x 1> >, three comment kinds, newline, `$`, `é`, unterminated string/comment), "
        "(b) token-level mutants (delete/dup/insert/swap/truncate/replace) of every *.llw in the repository, (c) character "
        "soup with multi-byte characters, (d) declaration-level edits of model-rendered accepted grammars (rule bodies emptied, part / start / skip "
        "declarations added, declarations dropped, doubled, swapped); each text goes through the real lexer+parser+SemanticPass in a dev build "
        "(debug assertions, overflow checks) and a release build; monitors: panic (caught, with location and innermost "
        "function), every label range within the text on char boundaries, codespan rendering succeeds. "
        "non-trivial = text that drew >= 1 diagnostic; distinct = distinct text (generator emits few duplicates; "
        "counted conservatively as texts with diagnostics in the release pass)")


def main(tier):
    chk = Check("C12", tier)
    rng = random.Random(chk.seed)
    n_items = 3 if tier == "quick" else 4
    texts = []
    grams = ttext.repo_grammars()
    per = 300 if tier == "quick" else 3000
    for f, src in grams:
        texts.extend(ttext.mutants(rng, src, per))
        texts.append(src)
    texts.extend(ttext.soup(rng, 40000 if tier == "quick" else 200000))
    texts.extend(ttext.decl_mutants(rng, 12000 if tier == "quick" else 120000))
    WORK.mkdir(exist_ok=True)
    tf = WORK / "c12_texts.jsonl"
    ntexts = ttext.write_texts(tf, texts)
    total = 0
    with_diags = 0
    for profile in ("release", "dev"):
        for spec in ({"tag": "seq", "mode": "front", "items": ttext.ALPHABET, "max_len": n_items, "sep": " "},
                     {"tag": "list", "mode": "front", "texts_file": str(tf)}):
            anomalies, summary = ttext.run_enum(spec, profile)
            total += summary.get("total", 0)
            if profile == "release":
                with_diags += summary.get("with_diags", 0)
            chk.count(f"{profile}_{spec['tag']}_texts", summary.get("total", 0))
            chk.count(f"{profile}_{spec['tag']}_texts_with_diags", summary.get("with_diags", 0))
            for k, v in summary.get("panics", {}).items():
                chk.count(f"{profile}_panics_at {k.split(' in ')[-1]}", v)
            for d in summary.get("died", []):
                chk.violation("process-died", f"vprobe enum shard died (rc={d[1]}): stack overflow or abort in the front end",
                              {"spec": d[0], "profile": profile})
            for a in anomalies:
                if a["kind"] == "panic":
                    fn = a["panic"].get("fn") or a["panic"]["loc"]
                    chk.violation(f"panic:{fn}", f"front end panics in {fn}: {a['panic']['msg'][:80]} on {a['text'][:60]!r}",
                                  {"text": a["text"], "panic": a["panic"], "profile": profile})
                elif a["kind"] == "bad_span":
                    chk.violation("bad-span:" + a["detail"][0].split("]")[0].split("[")[-1],
                                  f"diagnostic label outside the text / off a char boundary: {a['detail'][0]}",
                                  {"text": a["text"], "detail": a["detail"], "profile": profile})
                elif a["kind"] == "emit":
                    chk.violation("emit-failed", f"diagnostic cannot be rendered: {a['detail']}",
                                  {"text": a["text"], "profile": profile})
            if profile == "release":
                for s in summary.get("samples", [])[:2]:
                    chk.sample({"text": s})
    if tier == "thorough":
        # AddressSanitizer pass (secondary net: the crate forbids unsafe code, reports can only come from logos / codespan / std)
        import shutil
        logd = WORK / "asan_c12"
        shutil.rmtree(logd, ignore_errors=True)
        logd.mkdir(parents=True)
        opts = {"ASAN_OPTIONS": f"log_path={logd}/asan:halt_on_error=1:abort_on_error=1:detect_leaks=0"}
        for spec in ({"tag": "seq", "mode": "front", "items": ttext.ALPHABET, "max_len": 3, "sep": " "},
                     {"tag": "list", "mode": "front", "texts_file": str(tf)}):
            anomalies, summary = ttext.run_enum(spec, "asan", env_extra=opts)
            chk.count("asan_texts", summary.get("total", 0))
            for d in summary.get("died", []):
                chk.violation("asan:process-died", f"AddressSanitizer build of the front end died (rc={d[1]})", {"spec": d[0], "logs": [p.read_text()[:1500] for p in logd.glob("asan*")][:2]})
        reports = list(logd.glob("asan*"))
        chk.count("asan_reports", len(reports))
        for r in reports[:3]:
            chk.violation("asan:report", "AddressSanitizer report in the front end: " + r.read_text()[:300], {"log": r.read_text()[:3000]})
        shutil.rmtree(logd, ignore_errors=True)
    # nesting depth: a dimension the other workloads do not reach (recursive descent + recursive analysis)
    from ..tools import Probe
    for profile in ("release", "dev"):
        p = Probe(profile)
        for shape in ("paren", "opt"):
            for n in (50, 300, 1000, 3000, 10000, 50000):
                o, c = ("(", ")") if shape == "paren" else ("[", "]")
                text = "token A;\nstart s;\ns: " + o * n + "A" + c * n + ";\n"
                rep = p.ask("front", text=text)
                total += 1
                chk.count("deep_nesting_texts")
                wit = {"text": f"<{shape} nested {n} deep>", "shape": shape, "depth": n, "profile": profile}
                if "died" in rep:
                    chk.violation("deep-nesting:process-died", f"front end dies (rc={rep['died']}: stack overflow) on {shape} nested {n} deep ({profile})", wit)
                    p = Probe(profile)
                elif rep.get("panic"):
                    chk.violation("deep-nesting:panic", f"front end panics on {shape} nested {n} deep ({profile}): {rep['panic'].get('msg', '')[:100]}", wit)
                elif rep.get("bad_spans") or rep.get("emit_err"):
                    chk.violation("deep-nesting:bad-span", f"bad diagnostic span / rendering on {shape} nested {n} deep ({profile})", wit)
        p.close()
    chk.evaluations = total
    # distinct non-trivial: measured in the release pass only (the dev pass repeats the same texts)
    chk.nontrivial = set(range(with_diags))
    chk.note("exhaustive_part", f"all sequences of <= {n_items} items over {len(ttext.ALPHABET)} items, both profiles")
    chk.note("repository_grammars_mutated", len(grams))
    tf.unlink(missing_ok=True)
    chk.finish(RULE, min_nontrivial=10000)
