"""C13 - reading a grammar file recovers exactly the grammar that was written."""
from __future__ import annotations
import json
import random
from ..gen import SynGen
from ..model import render
from ..report import Check
from ..tools import Probe, pmap, seed, build_probe

RULE = ("random grammar structures (every declaration kind, every regex operator, nesting depth <= 5, redundant "
        "parentheses, symbols with escaped quotes/backslashes/unicode) x random legal layouts (blanks, newlines, CRLF, "
        "line/doc/block comments in any gap, glued tokens where lexically legal); one evaluation = one (structure, "
        "layout); oracle: lelwel's typed ast view == the model, and no syntax diagnostic; non-trivial = layout differs "
        "from the canonical one and the structure has regex depth >= 2; distinct = distinct text")


def depth(n):
    return 1 + max([depth(o) for o in n.ops], default=0)


def _worker(args):
    shard, nshards, count, sd = args
    rng = random.Random(sd * 104729 + shard)
    gen = SynGen(rng)
    probe = Probe("release")
    res = {"evals": 0, "keys": [], "viol": [], "samples": [], "counts": {}}
    for i in range(count):
        g = gen.grammar()
        layouts = [None, rng, rng]
        for lay in layouts:
            text = render(g, lay, p_comment=0.3)
            rep = probe.ask("ast", text=text)
            res["evals"] += 1
            d = max([depth(r.regex) for r in g.rules if r.regex is not None], default=0)
            if lay is not None and d >= 2:
                res["keys"].append(hash(text) & 0xFFFFFFFFFFFF)
            if rep.get("panic") or "died" in rep:
                res["viol"].append({"sig": "panic-or-death", "what": "front end panicked on a legal grammar text",
                                    "witness": {"text": text, "reply": rep}})
                continue
            want = g.to_json()
            syn = [x for x in rep["diags"]]
            if syn:
                # lexer diagnostics for symbols with invalid escapes are not generated here; any diag is a syntax error
                res["viol"].append({"sig": "syntax-error:" + syn[0]["msg"][:40], "what": "legal layout drew a syntax diagnostic: " + syn[0]["msg"],
                                    "witness": {"text": text, "diags": syn[:3]}})
                continue
            if rep["decls"] != json.loads(json.dumps(want)):
                # find the first differing declaration for the message
                k = 0
                while k < min(len(want), len(rep["decls"])) and json.loads(json.dumps(want[k])) == rep["decls"][k]:
                    k += 1
                res["viol"].append({"sig": "ast-differs:" + (want[k][0] if k < len(want) else "extra"),
                                    "what": f"typed view differs from the written grammar at declaration {k}",
                                    "witness": {"text": text, "written": want[k] if k < len(want) else None,
                                                "read": rep["decls"][k] if k < len(rep["decls"]) else None}})
            if len(res["samples"]) < 2 and lay is not None and d >= 3 and i % 40 == 3:
                res["samples"].append({"text": text})
    probe.close()
    return res


def main(tier):
    chk = Check("C13", tier)
    n = 40000 if tier == "quick" else 400000
    build_probe("release")
    results = pmap(_worker, [(s, 16, n // 16, chk.seed) for s in range(16)], 16)
    for r in results:
        chk.evaluations += r["evals"]
        chk.nontrivial.update(r["keys"])
        for v in r["viol"]:
            chk.violation(v["sig"], v["what"], v["witness"])
        for s in r["samples"]:
            chk.sample(s)
    chk.assumptions = ["the layout randomiser only produces lexically legal gaps (vflib/model.py needs_gap)"]
    chk.finish(RULE, min_nontrivial=2000 if tier == "quick" else 100000)
