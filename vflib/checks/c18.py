"""C18 - formatting is idempotent, so a formatted file passes the format check."""
from __future__ import annotations
import json
import random
import subprocess
from ..report import Check
from ..tools import build_bins, ENV, fresh_dir, rmtree, Probe
from .c17 import format_pass

RULE = ("syntactically valid grammar files: all repository grammars + model-rendered grammars (SynGen structures, G-valid "
        "grammars) in random layouts: arbitrary line breaks/indentation, line, doc and block comments in every kind of "
        "gap (between declarations, after any token on the same line, own lines inside rule bodies, inside brackets); "
        "monitor: format(format(x)) == format(x) in vprobe (dev + release), and on disk with the real llw: after "
        "`llw -f f`, `llw -f -c f` exits 0; `llw -f -c x` exits 0 iff format(x) == x. non-trivial = text with a comment "
        "or line break; distinct = distinct text")


def llw_check_mode(chk, fv, n):
    bins = build_bins("release")
    probe = Probe("release")
    d = fresh_dir("C18_disk")
    lines = fv.read_text().splitlines()
    rng = random.Random(chk.seed + 18)
    rng.shuffle(lines)
    done = 0
    for line in lines[:n]:
        text = json.loads(line)
        rep = probe.ask("format", text=text)
        if rep.get("panic") or "died" in rep or not rep.get("syntax_ok"):
            continue
        p = d / "g.llw"
        p.write_bytes(text.encode())
        r0 = subprocess.run([str(bins["llw"]), "-f", "-c", str(p)], env=ENV, capture_output=True, cwd=str(d))
        want0 = 0 if rep["out"] == text else 1
        if r0.returncode != want0:
            chk.violation("check-mode-status", f"`llw -f -c` exit {r0.returncode}, but format(x)==x is {rep['out'] == text}",
                          {"text": text, "exit": r0.returncode})
        if p.read_bytes() != text.encode():
            chk.violation("check-mode-wrote", "`llw -f -c` modified the file", {"text": text})
        subprocess.run([str(bins["llw"]), "-f", str(p)], env=ENV, capture_output=True, cwd=str(d))
        r2 = subprocess.run([str(bins["llw"]), "-f", "-c", str(p)], env=ENV, capture_output=True, cwd=str(d))
        done += 1
        if r2.returncode != 0 and rep.get("idempotent"):
            chk.violation("format-then-check", "`llw -f f && llw -f -c f` fails although format is a fixpoint in-process",
                          {"text": text, "exit": r2.returncode})
        elif r2.returncode != 0:
            from .c17 import classify_nonidem_all
            for sig in classify_nonidem_all(text, rep["out"], rep.get("out2")):
                chk.violation("nonidem:" + sig,
                              f"`llw -f f && llw -f -c f` fails for {text[:60]!r}", {"text": text, "out": rep["out"], "out2": rep.get("out2")})
    probe.close()
    rmtree(d)
    chk.count("llw_format_then_check_files", done)


def main(tier):
    chk = Check("C18", tier)
    fv = format_pass(chk, tier, "idem")
    llw_check_mode(chk, fv, 120 if tier == "quick" else 3000)
    fv.unlink(missing_ok=True)
    chk.finish(RULE, min_nontrivial=3000)
