"""thin per-property front ends over the shared arena campaign"""
from __future__ import annotations
from ..report import Check
from .. import campaign

RULES = {
    "C01": ("grammars: G-valid population (EBNF operators, Pratt rules, node operators, ordered choice, predicates/assertions "
            "with PRNG-drawn outcomes, parts, skipped tokens) accepted by the real llw and compiled by rustc + labelled defect-"
            "shape buckets; inputs: sampled sentences, all their prefixes, single-edit mutants, random strings, runs of 64 / "
            "4096 identical tokens, empty input, each with skipped/Error tokens inserted; oracle (online, in the arena): the "
            "pre-order walk through children/get/span visits exactly the lexer's (kind, span) sequence, source text is "
            "reproduced, span/Display do not panic. evaluation = one parse (pristine twin); non-trivial = input has "
            "skipped/Error tokens and the parse produced an error node, a restore or an inserted wrapper; distinct = (grammar, input, outcome seed)"),
    "C02": ("same parses as C01; oracle (online): child refs strictly increasing, sibling extents disjoint, child spans nested and "
            "ordered, empty nodes at o..o, no non-root rule node starts/ends with a skipped or Error token; every create_node_* "
            "callback announces a node of the announced kind whose subtree dump equals the surviving node in the final tree. "
            "non-trivial = tree with an error node, empty node or inserted wrapper. Builder lab: every well-nested history of open / close / "
            "advance(+skipped tokens) / mark / insert-before-mark (closed at once or left open) / snapshot / truncate / commit up to the stated "
            "length (exhaustive) plus random histories up to 48 operations on the real CstData, compared node by node (kind, nesting, spans, token "
            "order) with an explicit reference tree; non-trivial = history with an insertion or a truncation"),
    "C03": ("same parses as C01 on both twins; oracle: no panic (caught, with location), loop probes: same loop activation 64x at "
            "the same position = livelock, cursor beyond the input = runaway, rule probes: 20000 rule entries at one position = "
            "recursion without consuming; process death (stack overflow / abort / 6 GiB limit) = violation; a watchdog expiry "
            "without a logical verdict = inconclusive. non-trivial = parse with an error node or an input ending inside a construct"),
    "C04": ("grammars of the campaign without user predicates/assertions; inputs up to 16 tokens; oracle (offline): diagnostics "
            "empty <=> member, membership by R-earley (plain grammars) or R-interp (ordered choice / ?t, with accept => Earley "
            "member as self-check). non-trivial = sentence with >= 2 tokens, or non-sentence that is a prefix / single-edit mutant of one"),
    "C05": ("sentences (<= 16 tokens) of campaign grammars without user predicates/assertions; oracle: trivia-free tree dump == "
            "R-interp's derivation tree with rename / elision / marker-creation / whole-rule creation applied, action_* sequence == "
            "derivation order. non-trivial = grammar uses rename, elision or creation"),
    "C06": ("all parses: syntax diagnostics strictly increasing, spans inside the source; backtracking-free grammars without "
            "predicates (profile `pure`): first syntax diagnostic == span of the token at R-earley's viable-prefix index (or "
            "len..len). non-trivial = parse with >= 1 pushed syntax diagnostic"),
    "C07": ("Pratt grammars (1-5 recursive branches: infix with 1-3 operator tokens, prefix, postfix; random subsets declared "
            "right) x operator expressions (all operator sequences up to length 3 for <= 4 infix operators, random up to 6 "
            "operators with prefix/postfix/parentheses); oracle: R-prec (precedence climbing on level/associativity, cross-checked "
            "by exhaustive enumeration of binary trees against the declarative rule). non-trivial = expression with >= 2 operators"),
    "C08": ("grammars with ordered choices (with/without commit, sub-rules shared with ordinary contexts); probed twin: tree debug "
            "string / position / diagnostics after every restore == snapshot before the attempt; no action inside an undoable "
            "attempt; created - deleted callbacks == rule nodes of the final tree per kind; differential: G vs G[k] (choice site "
            "replaced by the alternative every dynamic instance took) must give the same tree and diagnostics. non-trivial = parse with >= 1 restore"),
    "C11": ("every grammar of the campaign: llw exit status, files written, rustc verdict on the emitted parser inside a "
            "mechanically derived ParserCallbacks impl; buckets with accepted-but-suspicious shapes; non-trivial = grammar using >= 3 feature dials or a bucket"),
    "C16": ("pairs (w, w') where w' is w with skipped and Error tokens inserted (every gap / random gaps / only ends); oracle: "
            "trees equal after erasing those tokens, diagnostics equal as (token index | eof, kind) sequences; online: every "
            "predicate call sees peek(k)/peek_left(k) == k-th non-skipped token from the cursor. non-trivial = trivia inserted in an interior gap"),
}

MIN = {
    "quick": {"C01": 300, "C02": 2000, "C03": 2000, "C04": 2000, "C05": 300, "C06": 2000, "C07": 300, "C08": 300, "C11": 50, "C16": 1000},
    "thorough": {"C01": 10000, "C02": 50000, "C03": 50000, "C04": 50000, "C05": 10000, "C06": 50000, "C07": 10000, "C08": 10000, "C11": 1000, "C16": 30000},
}


def main(pid, tier, extra=None):
    chk = Check(pid, tier)
    res = campaign.run(tier)
    chk.evaluations = res["evals"].get(pid, 0)
    chk.nontrivial = set(range(res["nontrivial"].get(pid, 0)))
    for k, v in res["counts"].get(pid, {}).items():
        chk.counters[k] = v
    chk.note("arena", res["counts"].get("arena", {}))
    chk.note("grammar_features", res["counts"].get("features", {}))
    chk.note("grammar_profiles", res["counts"].get("profiles", {}))
    chk.note("campaign_wall_s", res.get("wall_s"))
    for s in res["samples"].get("arena", [])[:3]:
        chk.sample(s)
    for v in res["viol"].get(pid, []):
        chk.violation(v["sig"], v["what"], v["witness"])
    for inc in res["inconclusive"].get(pid, [])[:3]:
        chk.inconclusive_because(inc["reason"])
    chk.assumptions = [
        "grammars come from the harness's generator; depth/size bounded (<= 6 rules, regex depth <= 3, inputs <= 4096 tokens)",
        "the arena's lexer, Token enum and ParserCallbacks impl are derived mechanically from the grammar model and the emitted trait",
        "shapes with a known defect are generated only in labelled buckets (DESIGN 4)",
    ]
    if extra is not None:
        extra(chk)
    chk.finish(RULES[pid], min_nontrivial=MIN[tier][pid])
