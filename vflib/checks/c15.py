"""C15: output is reproducible and independent of declaration order.

 A  repeated runs: the real `llw` is run three times per grammar in fresh processes (different absolute
    directories, HOME, TMPDIR, LANG, TZ, a large dummy variable that moves the stack, one run under
    `setarch -R`-free default ASLR) with the same relative command line; generated.rs / lexer.rs / parser.rs,
    stderr and the exit status must be byte-identical.  The library is asked twice through two vprobe
    processes and once more in the first one: the serialised SemanticData and diagnostics must be identical.
 B  declaration order: the top-level declarations of an accepted model grammar (and the names inside token /
    skip / right / part lists) are permuted; warnings must be the same multiset of (code, message, quoted
    source text), every first / follow / predict / recovery set of every regex node (matched through the
    harness's own model, not through positions) must be equal, and the two generated parsers - compiled
    into one arena - must return the same tree, diagnostics and callback trace on every input of the
    campaign's input generator.
"""
from __future__ import annotations
import hashlib
import os
import random
import shutil
import subprocess
import time
from collections import Counter
from pathlib import Path
from ..report import Check
from ..tools import build_bins, build_probe, Probe, WORK, REPO, ENV, log, seed as get_seed, pmap, fresh_dir, rmtree, Inconclusive
from ..model import Grammar, render, LELWEL_KIND
from ..gvalid import GValid
from ..gen import AnyGen
from ..arena import Unit, Arena, run_llw
from .. import campaign

SIZES = {"quick": dict(arena_grammars=64, perms=2, runs_grammars=160), "thorough": dict(arena_grammars=640, perms=3, runs_grammars=2400)}


def permuted(g: Grammar, rng: random.Random) -> Grammar:
    decls = []
    for d in g.decls:
        if d[0] in ("token", "skip", "right", "part"):
            items = list(d[1])
            rng.shuffle(items)
            decls.append((d[0], items))
        else:
            decls.append(d)
    for _ in range(4):
        rng.shuffle(decls)
        if [id(x) if x[0] == "rule" else x for x in decls] != [id(x) if x[0] == "rule" else x for x in g.decls]:
            break
    g2 = Grammar(decls)
    return g2


def moved_kinds(g, g2):
    """which declaration kinds changed their relative position to the first rule"""
    def first_rule(gr):
        for i, d in enumerate(gr.decls):
            if d[0] == "rule":
                return i
        return 0
    a, b = first_rule(g), first_rule(g2)
    out = set()
    for k in ("skip", "right", "start", "part", "token"):
        pa = [i < a for i, d in enumerate(g.decls) if d[0] == k]
        pb = [i < b for i, d in enumerate(g2.decls) if d[0] == k]
        if sorted(pa) != sorted(pb):
            out.add(k)
    return out


def observe(probe: Probe, g: Grammar):
    """renders g, asks the real SemanticPass; returns (text, per-model-node sets keyed by id, warnings multiset, raw reply)"""
    text = render(g)
    rep = probe.ask("sema", text=text)
    if "died" in rep or rep.get("panic") or "nodes" not in rep:
        return text, None, None, rep
    idx = {(nd["k"], nd["s"][0], nd["s"][1]): nd for nd in rep["nodes"]}
    sets = {}
    for r in g.rules:
        if r.regex is None:
            continue
        for n in r.regex.walk():
            nd = idx.get((LELWEL_KIND[n.k], n.span[0], n.span[1]))
            if nd is None:
                sets[id(n)] = None
            else:
                sets[id(n)] = tuple(tuple(sorted(nd[k])) if nd.get(k) is not None else None for k in ("first", "follow", "predict", "recovery"))
    warn = Counter()
    tb = text.encode()
    for d in rep["diags"]:
        lab = [l for l in d["labels"] if l["primary"]]
        quoted = tb[lab[0]["s"]:lab[0]["e"]].decode(errors="replace") if lab else ""
        warn[(d["sev"], d["code"], d["msg"], " ".join(quoted.split()))] += 1
    return text, sets, warn, rep


def describe(g, nid):
    for r in g.rules:
        if r.regex is not None:
            for n in r.regex.walk():
                if id(n) == nid:
                    return f"{n.k} `{repr(n)[:40]}` in rule {r.name}"
    return "?"


# ------------------------------------------------------------------------------------------------
# B: permutation (analysis + behaviour), one shard
# ------------------------------------------------------------------------------------------------

def _perm_worker(args):
    shard, nshards, tier, sd, root = args
    sz = SIZES[tier]
    rng = random.Random(sd * 4241 + shard)
    probe = Probe("release")
    out = {"viol": [], "counts": Counter(), "evals": 0, "keys": [], "samples": [], "inconclusive": []}
    units = []
    pairs = []
    n = sz["arena_grammars"] // nshards
    for i in range(n + 1):
        cfg = None if i % 2 else dict(p_user_pred=0.0, p_assert=0.0)
        if i == n:
            # template: parts that refer to each other and are not reachable from the start rule (their analysis must not
            # depend on which of them is declared first)
            from ..buckets import _g
            from ..model import name as nm_, concat as cc_, star as st_, opt as op_, paren as pa_
            inner = st_(pa_(cc_(nm_("X"), nm_("Y")))) if rng.random() < 0.6 else op_(cc_(nm_("X"), nm_("Y")))
            b_body = cc_(inner, nm_("Z")) if rng.random() < 0.4 else inner
            a_body = cc_(st_(pa_(cc_(nm_("B"), nm_("b"), nm_("C")))), nm_("D"))
            rules = [("s", cc_(nm_("A"), op_(nm_("D"))), False), ("a", a_body, False), ("b", b_body, False)]
            if rng.random() < 0.5:
                rules.append(("c", cc_(nm_("Z"), nm_("b"), nm_("A")), False))
            g = _g(["A", "B", "C", "D", "X", "Y", "Z", "Ws"], rules, skip=["Ws"], parts=["a", "b"] + (["c"] if len(rules) == 4 else []))
            meta = {"features": ["parts", "unreferenced_part", "star"], "skipped": ["Ws"]}
        else:
            g, meta = GValid(rng, cfg).grammar()
        if g is None:
            continue
        meta.pop("refsets", None)
        text0, sets0, warn0, rep0 = observe(probe, g)
        if sets0 is None:
            out["counts"]["front_end_failed"] += 1
            continue
        if any(d["sev"] == "error" for d in rep0["diags"]):
            out["counts"]["base_not_accepted"] += 1
            continue
        base = Unit(f"g{shard}_{i}", g, meta)
        base.text = text0
        base.twin = False
        units.append(base)
        for k in range(sz["perms"]):
            g2 = permuted(g, rng)
            text2, sets2, warn2, rep2 = observe(probe, g2)
            key = f"{shard}_{i}_{k}"
            out["evals"] += 1
            moved = moved_kinds(g, g2)
            if moved & {"skip", "right", "start", "part"}:
                out["keys"].append(key)
            for m in moved:
                out["counts"]["moved_" + m] += 1
            wit = {"grammar": text0, "permuted": text2}
            if sets2 is None:
                out["viol"].append({"sig": "permuted-front-end-fails", "what": f"the permuted grammar makes the front end fail: {str(rep2)[:200]}", "witness": wit})
                continue
            if warn0 != warn2:
                diff = sorted((warn0 - warn2).items())[:3] + sorted((warn2 - warn0).items())[:3]
                kind = sorted({d[0][1] for d in diff})
                out["viol"].append({"sig": "diagnostics-differ:" + ",".join(kind), "what": f"diagnostics change with the order of declarations: {diff}", "witness": wit})
            out["counts"]["diagnostics_compared"] += sum(warn0.values())
            bad = [nid for nid in sets0 if sets0[nid] != sets2.get(nid)]
            out["counts"]["node_sets_compared"] += len(sets0)
            if bad:
                nid = bad[0]
                which = [nm for nm, a, b in zip(("first", "follow", "predict", "recovery"), sets0[nid] or (None,) * 4, sets2.get(nid) or (None,) * 4) if a != b]
                out["viol"].append({"sig": "sets-differ:" + ",".join(which), "what": f"analysis sets of {describe(g, nid)} change with the order of declarations: {sets0[nid]} vs {sets2.get(nid)}",
                                    "witness": wit})
            u2 = Unit(f"g{shard}_{i}x{k}", g2, dict(meta))
            u2.text = text2
            u2.lex = base.lex
            u2.twin = False
            units.append(u2)
            pairs.append((base, u2, key))
        if len(out["samples"]) < 1:
            out["samples"].append({"grammar": text0, "permuted": text2})
    probe.close()
    # ---- behaviour: both parsers in one arena ---------------------------------------------------------
    wd = Path(root) / f"w{shard}"
    run_llw(units, wd, jobs=2)
    arena = Arena(Path(root), f"p{shard}")
    for u in units:
        u.want_variants = False
    arena.write([u for u in units if u.generated], twin=False)
    arena.build("dev")
    jobs = []
    jmeta = {}
    for base, u2, key in pairs:
        if not base.generated or not u2.generated or base.compile_error or u2.compile_error:
            if base.accepted and not u2.accepted:
                out["viol"].append({"sig": "accepted-changes", "what": "llw accepts the grammar but rejects the permuted one", "witness": {"grammar": base.text, "permuted": u2.text, "stderr": u2.llw_stderr[-400:]}})
            continue
        inputs = campaign.make_inputs(base, random.Random(hash(key) & 0xFFFF), "quick")
        ud = campaign.user_dependent(base.g)
        for ino, (entry, kind, toks, basetoks, _) in enumerate(inputs):
            if kind.startswith("run4096"):
                continue
            src = base.source_of(toks)
            for mode, s_ in ([("11", 1)] if not ud else [("00", 1), ("11", 3), ("22", 4)]):
                for which, u in (("a", base), ("b", u2)):
                    jid = f"{key}|{ino}|{mode}|{which}"
                    jobs.append((jid, u.gid, entry, s_ * 7919 + ino, mode, src))
                    jmeta[jid] = (base, u2, entry, toks)
    # (a parser that dies or spins is C03's business; here both parsers only have to behave alike: small budget, no repeats)
    results, incidents = arena.run(jobs, budget_ms=4000, retry=False)
    seen = set()
    for jid, ra in results.items():
        if not jid.endswith("|a"):
            continue
        rb = results.get(jid[:-1] + "b")
        if rb is None:
            continue
        out["counts"]["parses_compared"] += 1
        fa = (ra.get("tree"), ra.get("diags"), ra.get("ev"), ra.get("panic"))
        fb = (rb.get("tree"), rb.get("diags"), rb.get("ev"), rb.get("panic"))
        if fa != fb:
            base, u2, entry, toks = jmeta[jid]
            if base.gid in seen:
                continue
            seen.add(base.gid)
            out["viol"].append({"sig": "parser-behaviour-differs", "what": "the parsers generated from a grammar and from the same grammar with permuted declarations behave differently",
                                "witness": {"grammar": base.text, "permuted": u2.text, "entry": entry, "tokens": toks[:60], "a": str(fa)[:400], "b": str(fb)[:400]}})
    by_gid = {u.gid: u for u in units}
    for inc in incidents:
        out["counts"]["arena_incidents"] += 1
        out["counts"]["arena_incident_" + inc["kind"]] += 1
        if len(out["inconclusive"]) < 2:
            j = inc["job"]
            u = by_gid.get(j[1])
            out["inconclusive"].append({"kind": inc["kind"], "rc": inc.get("rc"), "grammar": u.text if u else None, "entry": j[2], "source": j[5][:200], "modes": j[4]})
    rmtree(arena.dir)
    rmtree(wd)
    out["counts"] = dict(out["counts"])
    return out


# ------------------------------------------------------------------------------------------------
# A: repeated runs in fresh processes
# ------------------------------------------------------------------------------------------------

def _run_llw_once(llw, text: bytes, root: Path, tag: str, variant: int):
    d = root / f"{tag}_{'abc'[variant]}{'x' * (variant * 7)}"
    if d.exists():
        shutil.rmtree(d)
    (d / "out").mkdir(parents=True)
    (d / "g.llw").write_bytes(text)
    env = dict(ENV)
    env["HOME"] = str(d)
    env["TMPDIR"] = str(d)
    if variant == 1:
        env.update({"LANG": "C", "TZ": "Asia/Tokyo", "DUMMY": "x" * 5000, "RUST_LOG": "trace"})
    if variant == 2:
        env.update({"LANG": "de_DE.UTF-8", "LC_ALL": "C.UTF-8", "DUMMY": "y" * 131, "COLUMNS": "40"})
    p = subprocess.run([str(llw), "-o", "out", "g.llw"], cwd=str(d), env=env, stdout=subprocess.PIPE, stderr=subprocess.PIPE)
    files = {}
    for f in sorted(d.rglob("*")):
        if f.is_file() and f.name != "g.llw":
            files[str(f.relative_to(d))] = hashlib.sha256(f.read_bytes()).hexdigest()
    shutil.rmtree(d)
    return (p.returncode, hashlib.sha256(p.stdout).hexdigest(), p.stderr.decode(errors="replace"), files)


def _runs_worker(args):
    shard, nshards, tier, sd, root, llw, texts = args
    out = {"viol": [], "counts": Counter(), "evals": 0, "keys": [], "samples": []}
    for i, (origin, text) in enumerate(texts):
        if i % nshards != shard:
            continue
        obs = [_run_llw_once(llw, text, Path(root), f"r{shard}_{i}", v) for v in range(3)]
        out["evals"] += 1
        out["counts"]["llw_runs"] += 3
        out["counts"]["origin_" + origin] += 1
        out["counts"][f"exit_{obs[0][0]}"] += 1
        if obs[0][3] or obs[0][2]:
            out["keys"].append(hashlib.sha1(text).hexdigest()[:12])   # something was written or diagnosed
        for v in (1, 2):
            if obs[v] != obs[0]:
                what = []
                if obs[v][0] != obs[0][0]:
                    what.append("exit status")
                if obs[v][2] != obs[0][2]:
                    what.append("diagnostics")
                for f in set(obs[v][3]) | set(obs[0][3]):
                    if obs[v][3].get(f) != obs[0][3].get(f):
                        what.append(f)
                out["viol"].append({"sig": "runs-differ:" + ",".join(sorted(w.split("/")[-1] for w in what)), "what": f"two runs of llw on the same file differ in: {what}",
                                    "witness": {"grammar": text.decode(errors="replace"), "stderr_a": obs[0][2][-600:], "stderr_b": obs[v][2][-600:]}})
                break
    out["counts"] = dict(out["counts"])
    return out


def main(tier):
    chk = Check("C15", tier)
    sd = get_seed()
    sz = SIZES[tier]
    bins = build_bins("release")
    build_probe("release")
    root = fresh_dir(f"c15_{tier}_{sd}")
    t0 = time.time()
    # ---- B ----
    parts = pmap(_perm_worker, [(s, 16, tier, sd, str(root)) for s in range(16)], 16)
    keys = set()
    for p in parts:
        chk.evaluations += p["evals"]
        keys.update("perm:" + k for k in p["keys"])
        for k, v in p["counts"].items():
            chk.count(k, v)
        for v in p["viol"]:
            chk.violation("order:" + v["sig"], v["what"], v["witness"])
        for s in p["samples"][:1]:
            chk.sample(s, limit=2)
    chk.note("permutation_wall_s", round(time.time() - t0, 1))
    # ---- A ----
    t1 = time.time()
    rng = random.Random(sd * 31 + 5)
    texts = []
    for f in sorted(list((REPO / "examples").rglob("*.llw")) + list((REPO / "tests").rglob("*.llw")) + list((REPO / "src").rglob("*.llw"))):
        texts.append(("repository", f.read_bytes()))
    gen = AnyGen(rng)
    gv = GValid(rng)
    while len(texts) < sz["runs_grammars"]:
        if rng.random() < 0.5:
            texts.append(("random-any", render(gen.grammar()).encode()))      # mostly rejected: several diagnostics each
        else:
            g, _ = gv.grammar()
            if g is not None:
                texts.append(("random-accepted", render(g, rng).encode()))
    parts = pmap(_runs_worker, [(s, 16, tier, sd, str(root), str(bins["llw"]), texts) for s in range(16)], 16)
    for p in parts:
        chk.evaluations += p["evals"]
        keys.update("run:" + k for k in p["keys"])
        for k, v in p["counts"].items():
            chk.count(k, v)
        for v in p["viol"]:
            chk.violation(v["sig"], v["what"], v["witness"])
    # library: same process twice, and a second process
    pa, pb = Probe("release"), Probe("release")
    nlib = 0
    for origin, text in texts[:: max(1, len(texts) // 120)]:
        try:
            t = text.decode()
        except UnicodeDecodeError:
            continue
        r1 = pa.ask("sema", text=t)
        r2 = pa.ask("sema", text=t)
        r3 = pb.ask("sema", text=t)
        for r in (r1, r2, r3):
            r.pop("id", None)
        nlib += 1
        if not (r1 == r2 == r3):
            chk.violation("library-runs-differ", "SemanticPass gives different results for the same text (same process twice / second process)", {"grammar": t})
    pa.close()
    pb.close()
    chk.count("library_triples_compared", nlib)
    chk.note("runs_wall_s", round(time.time() - t1, 1))
    chk.nontrivial.update(keys)
    rmtree(root)
    chk.assumptions = ["the permutation keeps the contents of every declaration; only the order of top-level declarations and of the names inside token / skip / right / part lists changes",
                       "parser behaviour is compared on the campaign's input generator (sentences, prefixes, mutants, random strings, trivia variants, PRNG predicate outcomes)"]
    chk.finish("A: one evaluation = one grammar text (every .llw of the repository, random accepted grammars in random layouts, random mostly-rejected grammars) run 3x through "
               "the real llw in fresh processes with different directories and environments; non-trivial = the run wrote a file or printed a diagnostic. B: one evaluation = one "
               "(accepted model grammar, permutation of its declarations); non-trivial = the permutation moved a skip / right / start / part declaration across the first rule; "
               "distinct = distinct text / (grammar, permutation)", min_nontrivial=60 if tier == "quick" else 600)
