from .arena_common import main as _main


def main(tier):
    _main("C02", tier)
