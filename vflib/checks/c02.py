"""C02: grammar-driven monitors of the arena campaign + the builder lab (histories of tree-builder operations)."""
from ..report import Check
from .. import campaign, lab
from . import arena_common


def main(tier):
    def extra(chk: Check):
        res = lab.run(tier, miri=(tier == "thorough"))
        if res["status"] != "ok":
            chk.note("builder_lab", res)
            chk.inconclusive_because("builder lab: " + res["reason"])
            return
        chk.note("builder_lab", {k: v for k, v in res.items() if k != "mismatches"})
        chk.evaluations += res["exhaustive_histories"] + res["random_histories"]
        chk.nontrivial_extra += res["with_insert"]     # histories with an insertion (those with a truncation overlap: not added twice)
        for m in res["mismatches"]:
            kind = "token-sequence" if m["what"].startswith("C01") else ("panic" if "panics" in m["what"] else "tree")
            chk.violation(f"lab:{kind}", "builder lab: " + m["what"], {"history": m["history"], "what": m["what"]})
        if res.get("miri") and res["miri"]["reports"]:
            chk.violation("lab:miri", f"Miri reports on the tree builder: {res['miri']}", res["miri"])
        elif res.get("miri") and res["miri"]["exit"] != 0:
            chk.note("builder_lab_miri_inconclusive", f"miri run ended with {res['miri']['exit']} without an undefined-behaviour report")
    arena_common.main("C02", tier, extra=extra)
