"""C17 - formatting a grammar file never changes what it says."""
from __future__ import annotations
import random
import subprocess
from ..report import Check
from ..tools import WORK, build_bins, ENV, fresh_dir, rmtree
from .. import ttext

RULE = ("char-level claim on ALL texts: every sequence of <= N lexical items (41-item alphabet), token-level mutants of "
        "every repository grammar, character soup; token-level + semantic claims on syntactically valid files: model-"
        "rendered grammars (SynGen, G-valid) in random layouts with comments in every gap + all repository grammars. "
        "Monitors (in vprobe, dev and release builds): panic in format; non-whitespace character sequence of the output "
        "== input; for valid files the logos token/comment sequence is unchanged, the output has no syntax error and the "
        "semantic diagnostics (code, message, quoted text) are unchanged; `llw -f` on disk writes exactly that output. "
        "non-trivial = text with a comment or a line break inside; distinct = distinct text")


def format_pass(chk, tier, want):
    """shared by C17 (want='content') and C18 (want='idem')"""
    rng = random.Random(chk.seed)
    n_items = 3 if tier == "quick" else 4
    grams = ttext.repo_grammars()
    any_texts = []
    for f, src in grams:
        any_texts.extend(ttext.mutants(rng, src, 40 if tier == "quick" else 1500))
    any_texts.extend(ttext.soup(rng, 3000 if tier == "quick" else 100000))
    valid = [src for f, src in grams]
    nv = 6000 if tier == "quick" else 250000
    valid.extend(ttext.valid_layouts(rng, nv // 3, p_comment=0.0))      # layout only
    valid.extend(ttext.single_comment(rng, nv // 3))                      # exactly one comment, every gap class
    valid.extend(ttext.valid_layouts(rng, nv // 3))                      # comments anywhere
    WORK.mkdir(exist_ok=True)
    fa = WORK / f"{chk.pid}_any.jsonl"
    fv = WORK / f"{chk.pid}_valid.jsonl"
    ttext.write_texts(fa, any_texts)
    ttext.write_texts(fv, valid)
    specs = [{"tag": "valid", "mode": "format", "texts_file": str(fv)}]
    if want == "content":
        specs += [{"tag": "seq", "mode": "format", "items": ttext.ALPHABET, "max_len": n_items, "sep": " "},
                  {"tag": "any", "mode": "format", "texts_file": str(fa)}]
    total = 0
    nontriv = 0
    idem_checked = 0
    for profile in ("release", "dev"):
        for spec in specs:
            anomalies, summary = ttext.run_enum(spec, profile)
            total += summary.get("total", 0)
            if profile == "release":
                nontriv += summary.get("with_comment_or_nl", 0)
                idem_checked += summary.get("fmt_idem_checked", 0)
            chk.count(f"{profile}_{spec['tag']}_texts", summary.get("total", 0))
            chk.count(f"{profile}_{spec['tag']}_syntactically_valid", summary.get("syntax_ok", 0))
            for k, v in summary.get("panics", {}).items():
                chk.count(f"{profile}_panics_at {k.split(' in ')[-1]}", v)
            for d in summary.get("died", []):
                chk.violation("process-died", f"vprobe enum shard died (rc={d[1]}) while formatting",
                              {"spec": d[0], "profile": profile})
            for a in anomalies:
                if a["kind"] == "panic" and want == "content":
                    fn = a["panic"].get("fn") or a["panic"]["loc"]
                    chk.violation(f"panic:{profile}:{fn}", f"format panics ({profile} build) in {fn}: {a['panic']['msg'][:90]} on {a['text'][:50]!r}",
                                  {"text": a["text"], "panic": a["panic"], "profile": profile})
                elif a["kind"] == "fmt_problem" and want == "content":
                    chk.violation("content:" + a["detail"][0], f"formatting changed the grammar: {a['detail']} on {a['text'][:60]!r}",
                                  {"text": a["text"], "out": a["out"], "detail": a["detail"], "profile": profile})
                elif a["kind"] == "nonidem" and want == "idem":
                    for sig in classify_nonidem_all(a["text"], a["out"], a["out2"]):
                        chk.violation("nonidem:" + sig,
                                      f"format(format(x)) != format(x) for {a['text'][:70]!r}",
                                      {"text": a["text"], "out": a["out"], "out2": a["out2"], "profile": profile})
            if profile == "release":
                for s in summary.get("samples", [])[:2]:
                    chk.sample({"text": s})
    chk.evaluations = total
    chk.nontrivial = set(range(nontriv))
    chk.note("idempotence_checked_on_valid_files", idem_checked)
    chk.note("exhaustive_part", f"all sequences of <= {n_items} items over {len(ttext.ALPHABET)} items (char-level claim)" if want == "content" else "n/a")
    fa.unlink(missing_ok=True)
    return fv


def _is_comment(line):
    t = line.strip()
    return t.startswith("//") or t.startswith("/*")


_LEX = None


def _comments(s):
    """[(offset, text)] of the comments of s in order (symbols are skipped so that `'//'` is no comment;
    lelwel block comments do not nest)"""
    global _LEX
    import re
    if _LEX is None:
        _LEX = re.compile(r"'(?:\\.|[^'\\\n])*'|(//[^\n]*|/\*.*?\*/)", re.S)
    return [(m.start(1), m.group(1)) for m in _LEX.finditer(s) if m.group(1) is not None]


def _moved_to_line_start(text, out, line_no):
    """True iff the comment that opens line `line_no` of `out` stood, in the input `text`, on the same
    line as the token before it: the line break in front of it was put there by the printer."""
    lines = out.split("\n")
    off = sum(len(l) + 1 for l in lines[:line_no]) + (len(lines[line_no]) - len(lines[line_no].lstrip()))
    co, ct = _comments(out), _comments(text)
    if len(co) != len(ct):
        return False
    for k, (o, c) in enumerate(co):
        if o == off:
            if ct[k][1].rstrip() != c.rstrip():
                return False
            before = text[:ct[k][0]].rstrip(" \t\r")
            return before != "" and not before.endswith("\n")
    return False


def _classify_hunk(text, out, a, b, i1, i2, j1, j2):
    A, B = a[i1:i2], b[j1:j2]
    As, Bs = [l.strip() for l in A if l.strip()], [l.strip() for l in B if l.strip()]
    prev = a[i1 - 1].rstrip() if i1 else ""
    if As == Bs and As and _is_comment(As[0]):
        # same lines, the hunk opens with a comment line; only blanks / blank lines differ
        first_a = next(k for k in range(i1, i2) if a[k].strip())
        prev = a[first_a - 1].rstrip() if first_a else ""
        moved = _moved_to_line_start(text, out, first_a)
        blank_added = sum(1 for l in B if not l.strip()) > sum(1 for l in A if not l.strip())
        if prev[-1:] in (":", "(", "[") and (blank_added or moved):
            # pass 1 glues / mis-indents the comment behind the bracket, pass 2 puts a blank line before it
            if blank_added:
                return f"blank-line-before-comment-first-after-`{prev[-1:]}`"
            return f"indent-of-comment-first-after-`{prev[-1:]}`"
        if len(As) == 1 and (len(prev) >= 80 or moved):
            return "comment-after-wrapped-line"
        if blank_added:
            return "blank-line-before-comment:other"
        return "other"
    if len(A) == 1 and len(B) >= 1 and A[0].startswith(B[0]) and B[0].strip():
        return "line-split"
    return "other"


def classify_nonidem_all(text, out, out2):
    """structural signatures of a non-fixpoint: one per hunk in which pass 1 and pass 2 differ, so that a
    text showing a listed finding *and* something else is still reported for the something else"""
    import difflib
    a, b = out.split("\n"), (out2 or "").split("\n")
    sm = difflib.SequenceMatcher(None, a, b, autojunk=False)
    sigs = []
    for tag, i1, i2, j1, j2 in sm.get_opcodes():
        if tag == "equal":
            continue
        s = _classify_hunk(text, out, a, b, i1, i2, j1, j2)
        if s not in sigs:
            sigs.append(s)
    return sigs or ["length"]


def classify_nonidem(text, out, out2):
    """one signature per witness: the first one that is not explained by the others' categories"""
    return classify_nonidem_all(text, out, out2)[0]


def llw_disk_check(chk, fv, n):
    """`llw -f file` writes exactly format(text); sampled from the valid texts"""
    import json
    from ..tools import Probe
    bins = build_bins("release")
    probe = Probe("release")
    d = fresh_dir(f"{chk.pid}_disk")
    lines = fv.read_text().splitlines()
    rng = random.Random(chk.seed + 17)
    rng.shuffle(lines)
    done = 0
    for line in lines[:n]:
        text = json.loads(line)
        rep = probe.ask("format", text=text)
        if rep.get("panic") or "died" in rep:
            continue
        p = d / "g.llw"
        p.write_bytes(text.encode())
        r = subprocess.run([str(bins["llw"]), "-f", str(p)], env=ENV, stdout=subprocess.PIPE, stderr=subprocess.PIPE, cwd=str(d))
        after = p.read_bytes().decode()
        done += 1
        if r.returncode != 0 or after != rep["out"]:
            chk.violation("llw-f-differs", "`llw -f` left a file that differs from format(text) or failed",
                          {"text": text, "exit": r.returncode, "file_after": after, "format": rep["out"]})
        others = [x.name for x in d.iterdir() if x.name != "g.llw"]
        if others:
            chk.violation("llw-f-extra-files", f"`llw -f` created other files: {others}", {"text": text})
    probe.close()
    rmtree(d)
    chk.count("llw_f_on_disk_files", done)


def main(tier):
    chk = Check("C17", tier)
    fv = format_pass(chk, tier, "content")
    llw_disk_check(chk, fv, 150 if tier == "quick" else 3000)
    fv.unlink(missing_ok=True)
    deep_nesting(chk)
    chk.assumptions = ["comparison of comment tokens ignores trailing blanks of a line comment (layout, not content)"]
    chk.finish(RULE, min_nontrivial=3000)


def deep_nesting(chk):
    """nesting depth is a dimension the layout generator does not reach (regex depth <= 5): parentheses / options / mixed,
    nested 10 ... 600 deep, through the real formatter in both profiles"""
    from ..tools import Probe
    depths = [10, 40, 100, 120, 126, 127, 128, 160, 250, 600]
    for profile in ("dev", "release"):
        p = Probe(profile)
        for shape in ("paren", "opt", "mixed"):
            for n in depths:
                if shape == "paren":
                    body = "(" * n + "A" + ")" * n
                elif shape == "opt":
                    body = "[" * n + "A" + "]" * n
                else:
                    body = "".join("([{"[i % 2] for i in range(n)) + "A" + "".join(")]"[(n - 1 - i) % 2] for i in range(n))
                text = "token A;\nstart s;\ns: " + body + ";\n"
                rep = p.ask("format", text=text)
                chk.case(("deep", shape, n, profile), True)
                chk.count("deep_nesting_texts")
                wit = {"text": text if n <= 130 else f"<{shape} nested {n} deep>", "shape": shape, "depth": n, "profile": profile}
                if "died" in rep:
                    chk.violation(f"deep-nesting:process-died", f"formatter process died (rc={rep['died']}) on {shape} nested {n} deep ({profile})", wit)
                    p = Probe(profile)
                elif rep.get("panic"):
                    chk.violation("deep-nesting:panic", f"formatter panics on {shape} nested {n} deep ({profile}): {rep['panic'].get('msg', '')[:100]}", dict(wit, panic=rep["panic"]))
                elif rep.get("problems") or rep.get("idempotent") is False:
                    chk.violation("deep-nesting:content", f"formatter changes content / is not idempotent on {shape} nested {n} deep ({profile}): {rep.get('problems')}", wit)
        p.close()
