"""C14 - recovery sets are the dominator-follow sets README defines (R-dom, brute force)."""
from __future__ import annotations
from ..anacamp import index_nodes, lookup, run as run_campaign
from ..refsets import EPS
from ..report import Check

RULE = ("accepted (error-free) reduced grammars from the C09 population: parts used and unused, rules reached through "
        "several references, recursion, empty rules; one evaluation = one grammar, every `*`/`+`/`[]` node of a used "
        "rule compared with union(follow_lelwel(d) for d in brute-force dominators) - first(body) - follow(body), plus the "
        "end-of-input membership check per entry point; non-trivial = grammar has a loop/option whose dominator set "
        "contains more than the node, its rule body and the start body (i.e. some node was *excluded* or included "
        "non-trivially), or is reached through >=2 references")


def build_graph(g):
    """nodes = model regex nodes of used rules; edges parent->child, name(rule)->rule body.
    Mirrors the README's 'directed graph induced by the grammar'."""
    rules = {r.name: r for r in g.rules}
    start = g.start
    used = set()
    st = [start]
    while st:
        nm = st.pop()
        if nm in used or nm not in rules:
            continue
        used.add(nm)
        r = rules[nm]
        if r.regex is not None:
            for n in r.regex.walk():
                if n.k == "name" and n.v[:1].islower():
                    st.append(n.v)
    succ = {}
    nodes = {}

    def add(a, b):
        succ.setdefault(id(a), []).append(b)
        nodes[id(a)] = a
        nodes[id(b)] = b

    graph_rules = set(used)
    extra_edges = []
    for p in g.parts:
        if p not in used and p in rules:
            graph_rules.add(p)  # lelwel marks an unused part as used and hangs it below the start body
            if rules[p].regex is not None and rules[start].regex is not None:
                extra_edges.append((rules[start].regex, rules[p].regex))
    # since `fix:` 3c675e9 everything that is reachable from an unreferenced part is parsed (and analysed) as well
    st = [p for p in graph_rules if p not in used]
    while st:
        nm = st.pop()
        r = rules.get(nm)
        if r is None or r.regex is None:
            continue
        for n in r.regex.walk():
            if n.k == "name" and n.v[:1].islower() and n.v in rules and n.v not in graph_rules:
                graph_rules.add(n.v)
                st.append(n.v)
    for nm in graph_rules:
        r = rules[nm]
        if r.regex is None:
            continue
        nodes[id(r.regex)] = r.regex
        for n in r.regex.walk():
            for o in n.ops:
                add(n, o)
            if n.k == "name" and n.v[:1].islower() and n.v in rules and rules[n.v].regex is not None:
                add(n, rules[n.v].regex)
    for a, b in extra_edges:
        add(a, b)
    return rules, graph_rules, nodes, succ


def reach(succ, src, removed=None):
    seen = set()
    st = [src]
    while st:
        x = st.pop()
        if x in seen or x == removed:
            continue
        seen.add(x)
        for y in succ.get(x, []):
            st.append(id(y))
    return seen


def judge(g, rs, rep, bump):
    if any(d["sev"] == "error" for d in rep["diags"]):
        bump("skipped_has_errors")
        return {"viol": [], "nontrivial": False}
    idx = index_nodes(rep)
    rules, graph_rules, nodes, succ = build_graph(g)
    start_rx = rules[g.start].regex
    if start_rx is None:
        bump("skipped_empty_start")
        return {"viol": [], "nontrivial": False}
    viol = []
    nontrivial = False
    nloops = 0
    all_reach = reach(succ, id(start_rx))
    # which entries reach which node (for the end-of-input clause)
    entry_reach = {}
    for e, eof in rs.entry_eof.items():
        if rules[e].regex is not None:
            entry_reach[eof] = reach(succ, id(rules[e].regex))
    # children of rules that are only reachable through an unused part are not in lelwel's graph
    loops = []
    for nm in graph_rules:
        r = rules[nm]
        if r.regex is None:
            continue
        for n in r.regex.walk():
            if n.k in ("star", "plus", "opt"):
                loops.append(n)
    for n in loops:
        nd = lookup(idx, n)
        if nd is None:
            viol.append({"kind": "harness", "sig": "unmatched-node", "what": f"node {n!r} not found", "witness": {}})
            continue
        if id(n) not in all_reach:
            continue
        nloops += 1
        if nd["recovery"] is None:
            viol.append({"sig": f"no-recovery-set:{n.k}", "what": f"no recovery set for {n.k} `{g.text[n.span[0]:n.span[1]]}`",
                         "witness": {"span": n.span}})
            continue
        got = set(nd["recovery"])
        # brute-force dominators: d dominates n iff n is unreachable once d is removed
        doms = [d for d in all_reach if d == id(n) or id(n) not in reach(succ, id(start_rx), removed=d)]
        union = set()
        for d in doms:
            dn = lookup(idx, nodes[d])
            if dn is None or dn["follow"] is None:
                viol.append({"kind": "harness", "sig": "unmatched-dom", "what": "dominator node not found", "witness": {}})
                continue
            union |= set(dn["follow"])
        body = n.ops[0]
        bn = lookup(idx, body)
        exp = union - set(bn["first"]) - set(bn["follow"])
        if len(doms) < len([x for x in all_reach if id(n) in reach(succ, x)]):
            nontrivial = True  # some ancestor-ish node is not a dominator (several paths)
        if got != exp:
            viol.append({"sig": f"recovery:{n.k}", "what": f"recovery set of {n.k} `{g.text[n.span[0]:n.span[1]]}`: lelwel {sorted(got)} != dominator definition {sorted(exp)}",
                         "witness": {"span": n.span, "lelwel": sorted(got), "expected": sorted(exp),
                                     "dominators": [[nodes[d].k, list(nodes[d].span)] for d in doms]}})
        fol = set(nd["follow"])
        for eof, rset in entry_reach.items():
            if id(n) in rset and eof not in (fol | got):
                viol.append({"sig": f"eof-missing:{n.k}", "what": f"{eof} is neither in follow nor in recovery of {n.k} `{g.text[n.span[0]:n.span[1]]}` reachable from that entry: the loop cannot leave at end of input",
                             "witness": {"span": n.span, "follow": sorted(fol), "recovery": sorted(got)}})
    bump("loops_compared", nloops)
    if g.parts:
        bump("grammars_with_parts")
    return {"viol": viol, "nontrivial": nontrivial and nloops > 0, "sample": {"loops": nloops}}


def main(tier):
    chk = Check("C14", tier)
    chk.assumptions = [
        "lelwel's own follow sets are used inside the formula on purpose (C09 owns their correctness); C14 isolates the dominator computation",
        "graph = regex nodes of rules reachable from the start rule, plus unused parts hung below the start rule's body (README / RecoverySetGenerator convention)",
    ]
    run_campaign(chk, "c14")
    chk.finish(RULE, min_nontrivial=200 if tier == "quick" else 5000)
