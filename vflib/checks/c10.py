"""C10 - LL(1) conflicts are reported exactly where the grammar has them (R-conf)."""
from __future__ import annotations
from ..anacamp import run as run_campaign
from ..model import strip_paren
from ..report import Check

RULE = ("same grammar population as C09 (exhaustive small + random, incl. Pratt rules with self references in operand, "
        "middle and nested positions, guards on conflicting branches); one evaluation = one grammar, the set of "
        "(E011..E014, primary span) lelwel reports compared with R-conf's must-report / must-not-report / don't-care "
        "classification computed from R-sets; non-trivial = grammar has >=1 expected conflict or a near miss "
        "(a decision whose sets would conflict after adding one token)")


def guarded(n):
    """lelwel's notion of a predicate-guarded branch/body: a concatenation starting with a predicate,
    possibly inside parentheses"""
    while n.k == "paren" and n.ops:
        n = n.ops[0]
    return n.k == "concat" and n.ops and n.ops[0].k == "pred"


SEM = ("pred", "rename", "elide", "action")


def pratt_info(rule):
    """branches of a directly left-recursive rule, following the README: top-level alternation whose
    branch is a concatenation starting (after predicate/rename/elision/action) with the rule itself."""
    rx = rule.regex
    if rx is None or rx.k != "alt":
        return None
    left = []
    rec_any = {}
    for b in rx.ops:
        if b.k != "concat":
            continue
        eff = [(i, o) for i, o in enumerate(b.ops) if o.k not in SEM]
        if not eff:
            continue
        is_self = lambda o: o.k == "name" and o.v == rule.name
        l = is_self(eff[0][1])
        r = len(eff) > 1 and is_self(eff[-1][1])
        if l:
            left.append((b, eff))
        if l or r:
            rec_any[id(b)] = (l, r)
    if not left:
        return None
    return {"left": left, "rec": rec_any}


def expected(g, rs):
    """returns (must, mustnot_everything_else, dontcare) as sets of (code, span)"""
    must, dont = set(), set()
    near = False
    pratt = {}
    for r in g.rules:
        pi = pratt_info(r)
        if pi:
            pratt[r.name] = pi

    def inter(a, b):
        return a & b

    for r in g.rules:
        if r.regex is None:
            continue
        pi = pratt.get(r.name)
        for n in r.regex.walk():
            if n.k == "alt":
                branches = n.ops
                if pi and n is r.regex:
                    branches = [b for b in n.ops if not pi["rec"].get(id(b), (False, False))[0]]
                for i, bi in enumerate(branches):
                    if guarded(bi):
                        continue
                    pi_ = rs.predict(bi, conv=True)
                    hit_unguarded = hit_guarded = False
                    for bj in branches[i + 1:]:
                        if inter(pi_, rs.predict(bj, conv=True)):
                            if guarded(bj):
                                hit_guarded = True
                            else:
                                hit_unguarded = True
                        elif len(pi_) and len(rs.predict(bj)):
                            near = True
                    if hit_unguarded:
                        must.add(("E011", bi.span))
                    elif hit_guarded:
                        dont.add(("E011", bi.span))
            elif n.k in ("star", "plus", "opt"):
                body = n.ops[0]
                code = "E014" if n.k == "opt" else "E013"
                if guarded(body):
                    continue
                if inter(rs.predict(body, conv=True), rs.follow(n, conv=True)):
                    # EOF<Part> convention tokens alone must not decide: recompute on textbook sets
                    if inter(rs.predict(body), rs.follow(n)):
                        must.add((code, n.span))
                    else:
                        dont.add((code, n.span))
                else:
                    near = True
        if pi:
            # operator element of each left-recursive branch
            ops = []
            for b, eff in pi["left"]:
                if len(eff) < 2:
                    ops.append((b, None))
                    continue
                ops.append((b, eff[1][1]))
            # occurrences of the rule outside precedence-governed operand positions
            foreign = set()
            own_other = set()
            for r2 in g.rules:
                if r2.regex is None:
                    continue
                for n in r2.regex.walk():
                    if n.k == "name" and n.v == r.name:
                        if r2.name != r.name:
                            foreign |= rs.follow(n)
                        else:
                            governed = False
                            for b in r.regex.ops:
                                if b.k == "concat":
                                    eff = [o for o in b.ops if o.k not in SEM]
                                    if eff and (eff[0] is n or (len(eff) > 1 and eff[-1] is n)):
                                        governed = True
                            if not governed:
                                own_other |= rs.follow(n)
            for i, (b, op) in enumerate(ops):
                if op is None or guarded(b):
                    continue
                p = rs.predict(op, conv=True)
                if p & foreign:
                    must.add(("E012", op.span))
                elif p & own_other:
                    dont.add(("E012", op.span))
                for (b2, op2) in ops[i + 1:]:
                    if op2 is None:
                        continue
                    if p & rs.predict(op2, conv=True):
                        if guarded(b2):
                            dont.add(("E012", op.span))
                        else:
                            must.add(("E012", op.span))
    return must, dont, near


def judge(g, rs, rep, bump):
    # grammars whose Pratt branch has the rule itself as the only element (`e: ?1 e | A`) have no
    # operator element: not classifiable -> skip (lelwel panics there, which C12 reports)
    got = set()
    for d in rep["diags"]:
        if d["code"] in ("E011", "E012", "E013", "E014"):
            lab = [l for l in d["labels"] if l["primary"]][0]
            got.add((d["code"], (lab["s"], lab["e"])))
    # plus over a nullable body puts ɛ into follow sets; nothing here depends on it
    for r in g.rules:
        pi = pratt_info(r)
        if pi and any(len(eff) < 2 for _, eff in pi["left"]):
            # `e: e #1 | ..` / `e: ?1 e | ..`: a cyclic production e -> e, no operator element to classify
            bump("skipped_degenerate_left_recursive_branch")
            return {"viol": [], "nontrivial": False}
    must, dont, near = expected(g, rs)
    # lelwel anchors E012 at the first non-predicate element after the left operand; when that is a
    # rename/elision/action directly in front of the operator element its predict set *is* the
    # operator set, so both spans denote the same site
    alias = {}
    for r in g.rules:
        pi = pratt_info(r)
        if pi:
            for b, eff in pi["left"]:
                for o in b.ops[eff[0][0] + 1:eff[1][0]]:
                    if o.k != "pred":
                        alias[("E012", o.span)] = ("E012", eff[1][1].span)
    got = {alias.get(c, c) for c in got}
    viol = []
    # separate bucket (DESIGN 4-F14): a rename/elision/action in front of the left operand. lelwel's
    # branch classifier skips these, its operator lookup (skip_first) only skips predicates.
    shape = ""
    for r in g.rules:
        pi = pratt_info(r)
        if pi:
            for b, eff in pi["left"]:
                if any(o.k in ("rename", "elide", "action") for o in b.ops[:eff[0][0]]):
                    shape = ":semop-before-left-operand"
    if shape:
        bump("bucket_semop_before_left_operand")
    for c in sorted(must - got):
        viol.append({"sig": f"missed:{c[0]}{shape}", "what": f"{c[0]} expected at `{g.text[c[1][0]:c[1][1]]}` {c[1]} but not reported",
                     "witness": {"expected": sorted(map(list, must)), "reported": sorted(map(list, got))}})
    for c in sorted(got - must - dont):
        viol.append({"sig": f"spurious:{c[0]}{shape}", "what": f"{c[0]} reported at `{g.text[c[1][0]:c[1][1]]}` {c[1]} but the definition gives no conflict there",
                     "witness": {"expected": sorted(map(list, must)), "dont_care": sorted(map(list, dont)), "reported": sorted(map(list, got))}})
    bump("expected_conflicts", len(must))
    bump("dont_care_sites", len(dont))
    bump("reported_conflicts", len(got))
    if not must and not got:
        bump("conflict_free_grammars")
    return {"viol": viol, "nontrivial": bool(must) or near, "sample": {"expected": sorted(map(list, must))}}


def main(tier):
    chk = Check("C10", tier)
    chk.assumptions = [
        "don't-care sites (neither verdict alarms): an unguarded branch that only collides with *guarded* later branches; "
        "self references of a Pratt rule in middle/nested positions of its own branches; collisions that exist only through the EOF<Part> convention",
        "a directly left-recursive rule is recognised as README describes it (top-level alternation, branch starts with the rule itself)",
    ]
    run_campaign(chk, "c10")
    chk.finish(RULE, min_nontrivial=500 if tier == "quick" else 20000)
