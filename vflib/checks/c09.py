"""C09 - first / follow / predict are exactly the textbook sets."""
from __future__ import annotations
from ..anacamp import index_nodes, lookup, rejected_before_analysis, run as run_campaign
from ..refsets import EPS
from ..report import Check

RULE = ("grammars: every reduced grammar of the exhaustive bound (see exhaustive_bound) plus seeded random larger ones "
        "(Pratt rules, hidden/indirect left recursion, parts, nullable constructs, guards, semantic operators); "
        "one evaluation = one grammar through the real SemanticPass with every rule/sub-expression set compared to "
        "R-sets; non-trivial = grammar has a nullable construct or recursion; distinct = distinct grammar text")


def has_plus_nullable(g, rs):
    for r in g.rules:
        if r.regex is None:
            continue
        for n in r.regex.walk():
            if n.k == "plus" and rs.nullable(n.ops[0]):
                return True
    return False


def judge(g, rs, rep, bump):
    if rejected_before_analysis(g, rep):
        # `e: ?1 e | A;`: rejected (E015 at the self-only branch) by the general check, which runs before
        # the LL(1) stage - lelwel computes, shows and uses no set for this grammar, nothing to compare.
        # Any set lelwel does return for it would contradict that reading of the pipeline.
        idx = index_nodes(rep)
        if any(nd["first"] is not None or nd["follow"] is not None or nd["predict"] is not None for nd in idx.values()):
            bump("sets_present_after_general_check_error")
        else:
            bump("skipped_rejected_by_general_check_self_only_branch")
            return {"viol": [], "nontrivial": False, "skipped": True}
    idx = index_nodes(rep)
    viol = []
    eps_ok = has_plus_nullable(g, rs)
    nontrivial = False
    rec = False
    nsets = 0
    for r in g.rules:
        if r.regex is None:
            nontrivial = True
            continue
        for n in r.regex.walk():
            if n.k in ("star", "opt") or (n.k == "paren" and not n.ops) or rs.nullable(n):
                nontrivial = True
            if n.k == "name" and n.v == r.name:
                rec = True
            nd = lookup(idx, n)
            if nd is None:
                viol.append({"kind": "harness", "sig": "unmatched-node", "what": f"model node {n!r} at {n.span} not found in lelwel's tree",
                             "witness": {}})
                continue
            if nd["first"] is None or nd["follow"] is None or nd["predict"] is None:
                viol.append({"sig": f"missing-set:{n.k}", "what": f"no first/follow/predict set for {n.k} node at {n.span}",
                             "witness": {"node": repr(n), "span": n.span}})
                continue
            nsets += 3
            lf, lw, lp = set(nd["first"]), set(nd["follow"]), set(nd["predict"])
            if eps_ok:
                lw.discard(EPS)
                lp.discard(EPS)
            rf = rs.first(n)
            if lf != rf:
                viol.append({"sig": f"first:{n.k}", "what": f"FIRST of {n.k} `{g.text[n.span[0]:n.span[1]]}`: lelwel {sorted(lf)} != reference {sorted(rf)}",
                             "witness": {"node": repr(n), "span": n.span, "lelwel": sorted(lf), "reference": sorted(rf)}})
            lo, hi = rs.follow(n), rs.follow(n, conv=True)
            if not (lo <= lw <= hi):
                viol.append({"sig": f"follow:{n.k}", "what": f"FOLLOW of {n.k} `{g.text[n.span[0]:n.span[1]]}`: lelwel {sorted(lw)} not in [{sorted(lo)}, {sorted(hi)}]",
                             "witness": {"node": repr(n), "span": n.span, "lelwel": sorted(lw), "reference": sorted(lo),
                                         "reference_with_part_eof_convention": sorted(hi)}})
            plo, phi = rs.predict(n), rs.predict(n, conv=True)
            if not (plo <= lp <= phi):
                viol.append({"sig": f"predict:{n.k}", "what": f"PREDICT of {n.k} `{g.text[n.span[0]:n.span[1]]}`: lelwel {sorted(lp)} not in [{sorted(plo)}, {sorted(phi)}]",
                             "witness": {"node": repr(n), "span": n.span, "lelwel": sorted(lp), "reference": sorted(plo)}})
            # what hover shows: EOF<Part> hidden -> must be exactly the textbook set
            hid = lambda s: {t for t in s if t == "EOF" or not t.startswith("EOF")}
            if hid(lw) != hid(lo):
                viol.append({"sig": f"follow-hover:{n.k}", "what": f"hover FOLLOW of {n.k} differs from textbook: {sorted(hid(lw))} vs {sorted(hid(lo))}",
                             "witness": {"node": repr(n), "span": n.span}})
    bump("sets_compared", nsets)
    if rec:
        bump("grammars_with_direct_recursion")
    return {"viol": viol, "nontrivial": nontrivial or rec,
            "sample": {"sets_compared": nsets}}


def main(tier):
    chk = Check("C09", tier)
    chk.assumptions = [
        "R-sets (vflib/refsets.py) implements the textbook definitions; it is self-checked against random derivations in every run",
        "lelwel adds every EOF<Part> to the start rule's follow set; that extra is accepted (hidden on hover, unobservable in parsers)",
        "ɛ inside follow/predict sets is ignored only for grammars containing `+` over a nullable body (the property's own carve-out)",
    ]
    # oracle self-check on a sample of the same population
    import random
    from ..gen import AnyGen, small_grammars, mk_small
    from ..refsets import RefSets
    rng = random.Random(chk.seed)
    gen = AnyGen(rng)
    checked = grams = 0
    try:
        pool = [gen.grammar() for _ in range(300 if tier == "quick" else 3000)]
        for i, spec in enumerate(small_grammars(max_total=4, ntokens=2, nrules=2, with_parts=True)):
            if i % 7 == 0:
                pool.append(mk_small(spec))
        for g in pool:
            rs = RefSets(g, textbook_only=True)
            if rs.is_reduced():
                checked += rs.self_check(rng, samples=8)
                grams += 1
    except AssertionError as e:
        chk.inconclusive_because(f"oracle self-check failed: {e}")
    chk.note("oracle_selfcheck", {"grammars": grams, "facts_checked": checked})
    run_campaign(chk, "c09")
    chk.finish(RULE, min_nontrivial=500 if tier == "quick" else 20000)
