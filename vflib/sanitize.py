"""Sanitizer / interpreter passes over generated parsers (thorough tier of C03): the emitted code and its tree
builder contain no `unsafe`, so these are a secondary net (and a regression guard for the `unsafe` optimisation
of the node vector that the README announces), never the deciding oracle."""
from __future__ import annotations
import random
import shutil
from pathlib import Path
from .arena import Unit, Arena, run_llw
from .gvalid import GValid
from .tools import fresh_dir, rmtree, seed as get_seed, log
from . import campaign


def arena_passes(n_asan=24, n_miri=4, miri_jobs=120):
    sd = get_seed()
    rng = random.Random(sd * 733 + 1)
    root = fresh_dir(f"sanit_{sd}")
    units = []
    while len(units) < n_asan:
        g, meta = GValid(rng).grammar()
        if g is None:
            continue
        meta.pop("refsets", None)
        u = Unit(f"g{len(units)}", g, meta)
        u.twin = True
        u.want_variants = False
        units.append(u)
    run_llw(units, root / "w", jobs=8)
    units = [u for u in units if u.generated]
    out = {"asan": {}, "miri": {}}
    # ---- AddressSanitizer -------------------------------------------------------------------------------
    a = Arena(root, "asan")
    a.write(units, twin=True)
    try:
        a.build("dev", asan=True)
        jobs, meta, inputs_of = campaign.make_jobs(units, rng, "quick")
        logd = root / "asanlog"
        logd.mkdir()
        results, incidents = a.run(jobs, asan_log=str(logd / "asan"))
        reports = sorted(logd.glob("asan*"))
        out["asan"] = {"grammars": len(units), "jobs": len(jobs), "results": len(results), "incidents": len(incidents),
                       "reports": [r.read_text()[:2000] for r in reports[:3]], "n_reports": len(reports)}
    except Exception as e:          # build path unusable: say so, do not guess
        out["asan"] = {"error": str(e).splitlines()[0][:300]}
    rmtree(a.dir)
    # ---- Miri -------------------------------------------------------------------------------------------
    m = Arena(root, "miri")
    mu = units[:n_miri]
    for u in mu:
        u.twin = False
    m.write(mu, twin=False)
    jobs, meta, inputs_of = campaign.make_jobs(mu, rng, "quick")
    jobs = [j for j in jobs if len(j[5]) < 60][:miri_jobs]
    res, rc, err = m.run_miri(jobs)
    ub = [l for l in err.splitlines() if "Undefined Behavior" in l or "error: unsupported operation" in l]
    out["miri"] = {"grammars": len(mu), "jobs": len(jobs), "results": len(res or {}), "exit": rc, "reports": ub[:5],
                   "problems": sum(1 for r in (res or {}).values() if r.get("problems") or r.get("panic"))}
    if rc not in (0,) and not ub:
        out["miri"]["stderr_tail"] = err[-600:]
    rmtree(m.dir)
    rmtree(root)
    return out
