"""Builder lab (C02): well-nested histories of tree-builder operations executed on the real `CstData`
that the current /repo emits, compared with an explicit reference tree (rust/lab)."""
from __future__ import annotations
import json
import os
import shutil
import subprocess
from pathlib import Path
from .tools import VERIF, CACHE, WORK, ENV, build_bins, log, seed as get_seed, fresh_dir

SIZES = {"quick": dict(max_len=7, nrand=30000), "thorough": dict(max_len=9, nrand=600000)}


def run(tier, miri=False):
    """returns {'status': 'ok'|'inconclusive', 'reason', counts..., 'mismatches': [...]}"""
    bins = build_bins("release")
    d = fresh_dir(f"labgen_{os.getpid()}")      # (concurrent runs must not share it)
    shutil.copy(VERIF / "rust" / "lab" / "lab.llw", d / "g.llw")
    r = subprocess.run([str(bins["llw"]), "-o", str(d), str(d / "g.llw")], cwd=str(d), env=ENV, stdout=subprocess.PIPE, stderr=subprocess.STDOUT, text=True)
    if r.returncode != 0 or not (d / "generated.rs").exists():
        return {"status": "inconclusive", "reason": "llw rejects the lab grammar: " + r.stdout[-200:]}
    env = dict(ENV)
    env["LAB_GENERATED"] = str(d / "generated.rs")
    env["CARGO_TARGET_DIR"] = str(CACHE / "target-lab")
    b = subprocess.run(["cargo", "build", "--offline", "--release"], cwd=str(VERIF / "rust" / "lab"), env=env, stdout=subprocess.PIPE, stderr=subprocess.STDOUT, text=True)
    if b.returncode != 0:
        return {"status": "inconclusive", "reason": "builder-api-changed: the lab does not compile against the emitted tree builder: " + " | ".join(l for l in b.stdout.splitlines() if l.startswith("error"))[:300]}
    exe = CACHE / "target-lab" / "release" / "lab"
    sz = SIZES[tier]
    procs = []
    for s in range(16):
        procs.append(subprocess.Popen([str(exe), str(sz["max_len"]), str(sz["nrand"]), str(get_seed()), str(s), "16"], stdout=subprocess.PIPE, stderr=subprocess.DEVNULL, text=True))
    out = {"status": "ok", "exhaustive_histories": 0, "random_histories": 0, "with_insert": 0, "with_truncate": 0, "nodes_compared": 0, "max_len": sz["max_len"], "mismatches": []}
    for p in procs:
        so, _ = p.communicate()
        try:
            j = json.loads(so.strip().splitlines()[-1])
        except Exception:
            return {"status": "inconclusive", "reason": f"lab shard died (rc {p.returncode})"}
        for k in ("exhaustive_histories", "random_histories", "with_insert", "with_truncate", "nodes_compared"):
            out[k] += j[k]
        out["mismatches"] += j["mismatches"]
    if miri:
        menv = dict(env)
        menv["CARGO_TARGET_DIR"] = str(CACHE / "target-lab-miri")
        menv["MIRIFLAGS"] = "-Zmiri-disable-isolation"
        try:
            m = subprocess.run(["cargo", "+nightly", "miri", "run", "--offline", "--", "2", "60", str(get_seed()), "0", "1"], cwd=str(VERIF / "rust" / "lab"), env=menv,
                               stdout=subprocess.PIPE, stderr=subprocess.PIPE, text=True, timeout=2400)
        except subprocess.TimeoutExpired:
            out["miri"] = {"exit": "timeout", "reports": [], "histories": 0}
            shutil.rmtree(d, ignore_errors=True)
            return out
        ub = [l for l in m.stderr.splitlines() if "Undefined Behavior" in l or "unsupported operation" in l]
        out["miri"] = {"exit": m.returncode, "reports": ub[:5]}
        try:
            out["miri"]["histories"] = json.loads(m.stdout.strip().splitlines()[-1])["exhaustive_histories"] + 60
        except Exception:
            out["miri"]["histories"] = 0
    shutil.rmtree(d, ignore_errors=True)
    return out
