"""R-earley: Earley recogniser over the BNF of RefSets (membership + viable-prefix index).
Independent of lelwel's analysis: works on productions only, no first/follow sets."""
from __future__ import annotations


class Earley:
    def __init__(self, rs):
        self.bnf = rs.bnf
        self.nullable = rs.nullable_nt
        self.rule_nt = rs.rule_nt
        self.prods = rs.bnf.prods

    def recognize(self, entry: str, toks):
        """returns (accepted, err_index) where err_index is the index of the first token after which no
        sentence can continue (len(toks) if the input is a viable proper prefix), None if accepted"""
        start = self.rule_nt[entry]
        prods = self.prods
        nullable = self.nullable
        n = len(toks)
        # item = (nt, prod index, dot, origin)
        chart = [dict() for _ in range(n + 1)]

        def add(k, item, agenda):
            if item not in chart[k]:
                chart[k][item] = True
                agenda.append(item)

        agenda = []
        for pi in range(len(prods[start])):
            add(0, (start, pi, 0, 0), agenda)
        for k in range(n + 1):
            if k > 0:
                agenda = list(chart[k].keys())
                if not agenda:
                    return False, k - 1
            i = 0
            while i < len(agenda):
                nt, pi, dot, org = agenda[i]
                i += 1
                rhs = prods[nt][pi]
                if dot < len(rhs):
                    s = rhs[dot]
                    if isinstance(s, str):
                        if k < n and toks[k] == s:
                            chart[k + 1][(nt, pi, dot + 1, org)] = True
                    else:
                        for qi in range(len(prods[s])):
                            add(k, (s, qi, 0, k), agenda)
                        if nullable[s]:
                            add(k, (nt, pi, dot + 1, org), agenda)
                else:
                    # completion
                    if org == k:
                        # empty completion: handled by the nullable shortcut above, but parents predicted
                        # later in this set still need advancing -> iterate current set
                        for (pnt, ppi, pdot, porg) in list(chart[k].keys()):
                            prhs = prods[pnt][ppi]
                            if pdot < len(prhs) and prhs[pdot] == nt:
                                add(k, (pnt, ppi, pdot + 1, porg), agenda)
                    else:
                        for (pnt, ppi, pdot, porg) in list(chart[org].keys()):
                            prhs = prods[pnt][ppi]
                            if pdot < len(prhs) and prhs[pdot] == nt:
                                add(k, (pnt, ppi, pdot + 1, porg), agenda)
        for (nt, pi, dot, org) in chart[n]:
            if nt == start and org == 0 and dot == len(prods[nt][pi]):
                return True, None
        return False, n
