"""One-off arena run: grammar text (canonical rendering) + inputs -> results of the real generated parser.
   python3 -m vflib.oneoff <replay.json | grammar.llw> [entry] [tok tok ...]    (keeps the work dir for reading)"""
from __future__ import annotations
import json
import sys
from pathlib import Path
from .arena import Unit, Arena, run_llw
from .model import parse_canonical, render
from .tools import fresh_dir, WORK, build_bins


def run(text, cases, keep=False, name="oneoff", twin=True, verbose=False):
    """cases: [(entry, tokens, modes, seed)] -> (unit, [record pristine], [record probed])"""
    g = parse_canonical(text)
    g.text = text
    u = Unit("g0", g, {})
    u.twin = twin
    u.want_variants = True
    root = fresh_dir(name)
    build_bins("release")
    run_llw([u], root / "w", jobs=1)
    if not u.generated:
        return u, None, None
    a = Arena(root, "x")
    a.write_mixed([u])
    failed = a.build("dev")
    if u.compile_error:
        return u, None, None
    jobs = []
    for i, (entry, toks, modes, sd) in enumerate(cases):
        src = u.source_of(toks)
        jobs.append((f"p{i}", "g0", entry, sd, modes, src))
        if twin:
            jobs.append((f"q{i}", "g0p", entry, sd, modes, src))
            for _, _, tag in getattr(u, "variants", []):
                jobs.append((f"{tag}_{i}", "g0" + tag, entry, sd, modes, src))
    res, inc = a.run(jobs)
    pr = [res.get(f"p{i}") for i in range(len(cases))]
    qr = [res.get(f"q{i}") for i in range(len(cases))]
    for k, v in res.items():
        if k.startswith("v") and verbose:
            print("variant", k, json.dumps(v, ensure_ascii=False))
    if not keep:
        from .tools import rmtree
        rmtree(root)
    return u, pr, qr, inc


def main():
    p = sys.argv[1]
    if p.endswith(".json"):
        w = json.load(open(p))["witness"]
        text = w["grammar"]
        entry = w.get("entry", "")
        toks = w.get("tokens", [])
        modes = w.get("modes", "11")
        sd = w.get("seed", 1)
    else:
        text = open(p).read()
        entry = sys.argv[2] if len(sys.argv) > 2 else ""
        toks = sys.argv[3:]
        modes, sd = "11", 1
    out = run(text, [(entry, toks, modes, sd)], keep=True, verbose=True)
    u = out[0]
    print("llw exit", u.llw_exit, u.llw_stderr[-1500:])
    if u.compile_error:
        print("compile error", u.compile_error)
    if out[1]:
        print("pristine:", json.dumps(out[1][0], ensure_ascii=False))
        print("probed  :", json.dumps(out[2][0], ensure_ascii=False))
        print("incidents:", out[3])
    print("work dir:", WORK / "oneoff")


if __name__ == "__main__":
    main()
