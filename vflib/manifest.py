"""Generates /verif/MANIFEST.json from the table below (python3 -m vflib.manifest)."""
import json
from pathlib import Path

VERIF = Path(__file__).resolve().parent.parent

CHECKS = {
    "C09": dict(
        technique="runtime monitoring: differential oracle (independent first/follow/predict reference on the harness's own grammar model) over the sets the real SemanticPass returns, exhaustive small + random grammars",
        text="Every reduced grammar up to the stated exhaustive bound plus tens of thousands of random larger ones is run through the real SemanticPass; each rule/sub-expression set is compared with an independently computed textbook set. Held = no disagreement on the grammars observed; no claim beyond the bound.",
        note="trusts vflib/refsets.py (self-checked on random derivations every run), the model renderer (a rendered model that draws a syntax error makes the run inconclusive) and vprobe's serialisation of SemanticData",
        design="§3 C09",
    ),
    "C10": dict(
        technique="runtime monitoring: reference conflict classifier (R-conf on independent R-sets) compared with the E011-E014 diagnostics of the real SemanticPass, exhaustive small + random grammars",
        text="Each grammar of the C09 population is classified per decision point as must-report / must-not-report / don't-care from independently computed sets and the property's definition of a conflict; the (code, primary span) set lelwel reports must contain every must-report site and nothing outside must-report and don't-care.",
        note="trusts R-sets and the stated don't-care cases (guarded later branch, Pratt self reference in middle/nested positions, EOF<Part> convention)",
        design="§3 C10",
    ),
    "C13": dict(
        technique="runtime monitoring: round-trip oracle (model -> random legal layout -> real lexer+parser -> typed ast view == model)",
        text="Random grammar structures rendered in random legal layouts are read by the real front end; the typed view must equal the written structure and no syntax diagnostic may appear.",
        note="trusts the renderer's notion of a legal gap; a negative control (wrong precedence in the renderer) is detected within 300 cases",
        design="§3 C13",
    ),
    "C14": dict(
        technique="runtime monitoring: brute-force dominator oracle on an independently built grammar graph vs. recovery_sets of the real SemanticPass",
        text="For every loop/option of every accepted grammar observed, the recovery set lelwel computed equals the README formula evaluated with brute-force dominators (delete a node, test reachability), and the end-of-input token of each entry point that reaches it is in follow or recovery.",
        note="uses lelwel's own follow sets inside the formula (C09 owns them); graph construction follows README/RecoverySetGenerator conventions for unused parts",
        design="§3 C14",
    ),
    "C12": dict(
        technique="runtime monitoring: panic/abort monitor + span-validity and renderability assertions around the real lexer/parser/SemanticPass (dev build with debug assertions and overflow checks, and release build), exhaustive short item sequences + mutated repository grammars + character soup",
        text="Every text of the workload (exhaustively all sequences up to the stated length over a 41-item lexical alphabet; token-level mutants of every repository grammar; multi-byte soup) is fed to the real front end in two build profiles; a panic, a label outside the text or off a char boundary, or a diagnostic that codespan cannot render is a violation.",
        note="trusts catch_unwind to observe panics (a process abort is detected by the shard dying and reported as a violation); exhaustive only up to the stated sequence length",
        design="§3 C12",
    ),
    "C17": dict(
        technique="runtime monitoring: panic monitor + content-preservation oracles (non-whitespace characters; logos token/comment sequence; re-parse; semantic diagnostics) around the real formatter, dev+release, plus the real `llw -f` on disk",
        text="All texts of the T-text workload are formatted by the real formatter in two build profiles; output must keep the non-whitespace characters; for syntactically valid files the token/comment sequence, syntactic validity and semantic diagnostics must be unchanged; `llw -f` must write exactly that output and nothing else.",
        note="comment comparison ignores trailing blanks of line comments and CR before LF inside block comments (layout)",
        design="§3 C17",
    ),
    "C18": dict(
        technique="runtime monitoring: fixpoint oracle format(format(x)) == format(x) over generated layouts (comment-free, exactly-one-comment in every gap class, comments anywhere), dev+release, and `llw -f` followed by `llw -f -c` with the real binary",
        text="Syntactically valid files in random layouts are formatted twice by the real formatter; every hunk in which pass 1 and pass 2 differ gets a structural signature; a signature listed as open in known_findings.jsonl would be reported as KNOWN-FINDING (none is open for C18: the former ones were repaired in /repo), anything else is a violation. The exit status of `llw -f -c` is compared with format(x)==x.",
        note="the signature of a non-fixpoint is structural and per differing hunk (what precedes the hunk, whether the printer moved the comment to a new line), so that one text can carry several signatures",
        design="§3 C18",
    ),
}

NOT_YET = "check not built yet in this round; design in DESIGN.md §3, build order §7"


def main():
    props = [json.loads(l) for l in (VERIF / "properties.jsonl").read_text().splitlines() if l.strip()]
    checks = []
    na = []
    for p in props:
        pid = p["id"]
        c = CHECKS.get(pid)
        if c is None:
            na.append({"property_id": pid, "reason": NOT_YET})
            continue
        checks.append({
            "property_id": pid,
            "quick_cmd": f"./vf check {pid} --tier quick",
            "thorough_cmd": f"./vf check {pid} --tier thorough",
            "evidence_file": f"/verif/evidence/{pid}.json",
            "replay_cmd_template": "./vf replay {path}",
            "engine": "vf",
            "level_claimed": {"category": c.get("category", "exploration"), "text": c["text"], "design_ref": c["design"]},
            "level_note": c["note"],
            "technique": c["technique"],
        })
    m = {
        "version": 1,
        "setup_cmd": "./vf setup",
        "hooks": {
            "guard": "lelwel_verif",
            "enable": "no source hooks are needed: all observation points are the public API, the ParserCallbacks trait and the emitted parser text (probes are inserted into a copy of generated.rs by the harness); the name --cfg lelwel_verif is reserved",
            "baseline_off_cmd": "cd /repo && cargo test --workspace --no-fail-fast --offline",
            "source_commits": [],
            "add_only": True,
        },
        "engines": [{
            "name": "vf", "path": "/verif/vf",
            "serves_properties": [c["property_id"] for c in checks],
            "kind_free_text": "Python harness (vflib) driving real executions: vprobe (Rust, path dependency on /repo) for analysis/front end/formatter/in-process LS, the real llw and lelwel-ls binaries, and generated-parser arenas compiled by rustc; reference oracles in Python",
        }],
        "checks": checks,
        "not_applicable": na,
        "notes": "exit codes: 0 held, 1 VIOLATION, 3 INCONCLUSIVE (never folded into the other two). Known findings: /verif/known_findings.jsonl.",
    }
    (VERIF / "MANIFEST.json").write_text(json.dumps(m, indent=1) + "\n")
    print(f"MANIFEST.json: {len(checks)} checks, {len(na)} not applicable")


if __name__ == "__main__":
    main()
