"""Generates /verif/MANIFEST.json from the table below (python3 -m vflib.manifest)."""
import json
from pathlib import Path

VERIF = Path(__file__).resolve().parent.parent

CHECKS = {
    "C09": dict(
        technique="runtime monitoring: differential oracle (independent first/follow/predict reference on the harness's own grammar model) over the sets the real SemanticPass returns, exhaustive small + random grammars",
        text="Every reduced grammar up to the stated exhaustive bound plus tens of thousands of random larger ones is run through the real SemanticPass; each rule/sub-expression set is compared with an independently computed textbook set. Held = no disagreement on the grammars observed; no claim beyond the bound.",
        note="trusts vflib/refsets.py (self-checked on random derivations every run), the model renderer (a rendered model that draws a syntax error makes the run inconclusive) and vprobe's serialisation of SemanticData",
        design="§3 C09",
    ),
    "C10": dict(
        technique="runtime monitoring: reference conflict classifier (R-conf on independent R-sets) compared with the E011-E014 diagnostics of the real SemanticPass, exhaustive small + random grammars",
        text="Each grammar of the C09 population is classified per decision point as must-report / must-not-report / don't-care from independently computed sets and the property's definition of a conflict; the (code, primary span) set lelwel reports must contain every must-report site and nothing outside must-report and don't-care.",
        note="trusts R-sets and the stated don't-care cases (guarded later branch, Pratt self reference in middle/nested positions, EOF<Part> convention)",
        design="§3 C10",
    ),
    "C13": dict(
        technique="runtime monitoring: round-trip oracle (model -> random legal layout -> real lexer+parser -> typed ast view == model)",
        text="Random grammar structures rendered in random legal layouts are read by the real front end; the typed view must equal the written structure and no syntax diagnostic may appear.",
        note="trusts the renderer's notion of a legal gap; a negative control (wrong precedence in the renderer) is detected within 300 cases",
        design="§3 C13",
    ),
    "C14": dict(
        technique="runtime monitoring: brute-force dominator oracle on an independently built grammar graph vs. recovery_sets of the real SemanticPass",
        text="For every loop/option of every accepted grammar observed, the recovery set lelwel computed equals the README formula evaluated with brute-force dominators (delete a node, test reachability), and the end-of-input token of each entry point that reaches it is in follow or recovery.",
        note="uses lelwel's own follow sets inside the formula (C09 owns them); graph construction follows README/RecoverySetGenerator conventions for unused parts",
        design="§3 C14",
    ),
    "C12": dict(
        technique="runtime monitoring: panic/abort monitor + span-validity and renderability assertions around the real lexer/parser/SemanticPass (dev build with debug assertions and overflow checks, and release build), exhaustive short item sequences + mutated repository grammars + character soup",
        text="Every text of the workload (exhaustively all sequences up to the stated length over a 41-item lexical alphabet; token-level mutants of every repository grammar; multi-byte soup) is fed to the real front end in two build profiles; a panic, a label outside the text or off a char boundary, or a diagnostic that codespan cannot render is a violation.",
        note="trusts catch_unwind to observe panics (a process abort is detected by the shard dying and reported as a violation); exhaustive only up to the stated sequence length",
        design="§3 C12",
    ),
    "C17": dict(
        technique="runtime monitoring: panic monitor + content-preservation oracles (non-whitespace characters; logos token/comment sequence; re-parse; semantic diagnostics) around the real formatter, dev+release, plus the real `llw -f` on disk",
        text="All texts of the T-text workload are formatted by the real formatter in two build profiles; output must keep the non-whitespace characters; for syntactically valid files the token/comment sequence, syntactic validity and semantic diagnostics must be unchanged; `llw -f` must write exactly that output and nothing else.",
        note="comment comparison ignores trailing blanks of line comments and CR before LF inside block comments (layout)",
        design="§3 C17",
    ),
    "C18": dict(
        technique="runtime monitoring: fixpoint oracle format(format(x)) == format(x) over generated layouts (comment-free, exactly-one-comment in every gap class, comments anywhere), dev+release, and `llw -f` followed by `llw -f -c` with the real binary",
        text="Syntactically valid files in random layouts are formatted twice by the real formatter; every hunk in which pass 1 and pass 2 differ gets a structural signature; a signature listed as open in known_findings.jsonl would be reported as KNOWN-FINDING (none is open for C18: the former ones were repaired in /repo), anything else is a violation. The exit status of `llw -f -c` is compared with format(x)==x.",
        note="the signature of a non-fixpoint is structural and per differing hunk (what precedes the hunk, whether the printer moved the comment to a new line), so that one text can carry several signatures",
        design="§3 C18",
    ),
}

ARENA_NOTE = ("grammars come from the harness's generator (bounded size/depth); the arena's lexer, Token enum and ParserCallbacks impl are derived "
              "mechanically from the grammar model and the emitted trait; shapes with a recorded defect live in labelled buckets (known_findings.jsonl)")
ARENA = {
    "C01": ("runtime monitoring: online tree walker inside the compiled generated parser (children/get/span only) compared with the lexer's token/span sequence on every parse of the arena campaign",
            "Every parse of the campaign (random accepted grammars x sentences, prefixes, mutants, garbage, long runs, trivia variants, PRNG-drawn predicate/assertion outcomes, every part entry) is walked online; a token missing, duplicated, out of order or with another span, a node outside the token table, or a panic in span/Display is a violation."),
    "C02": ("runtime monitoring: online structural checker of every returned tree + create_node_* callback monitor (announced kind, complete subtree) in the compiled generated parser",
            "Every returned tree is checked for strictly increasing child refs, disjoint sibling extents, nested and ordered child spans, o..o spans of empty nodes and no leading/trailing skipped token in non-root nodes; every node-created callback dumps the announced subtree at that moment and it must be found unchanged in the final tree."),
    "C03": ("runtime monitoring: panic monitor + logical livelock/recursion probes inserted in a twin of the emitted parser (one loop activation 64x at one position; 20000 rule entries at one position; cursor beyond input) + process-death detection, on hostile inputs incl. runs of 4096 tokens and every prefix of sentences",
            "Every parse must return: a caught panic, a loop activation that iterates 64 times without consuming, unbounded rule entries at one position, a cursor beyond the input or a dead arena process is a violation; a watchdog expiry without such a logical verdict is inconclusive."),
    "C04": ("runtime monitoring: differential oracle (independent Earley recogniser / value-semantics reference interpreter on the harness's grammar model) on the diagnostics of the compiled generated parser",
            "For grammars without user predicates/assertions and inputs up to 16 tokens (sentences, prefixes, single-edit mutants, random and exhaustive short strings, with trivia variants, start rule and parts) the diagnostic list is empty iff the reference says the input is a sentence."),
    "C05": ("runtime monitoring: differential oracle (reference interpreter computing the derivation tree with rename/elision/marker-creation applied and the action order) on the tree and action_* trace of the compiled generated parser",
            "For every sentence (<= 16 tokens) the trivia-free tree dump equals the reference derivation tree with node operators applied, and the action callbacks fire in derivation order."),
    "C06": ("runtime monitoring: viable-prefix oracle (Earley) on the first syntax diagnostic + ordering/range monitor on all diagnostics of the compiled generated parser",
            "For backtracking-free grammars without predicates/assertions the first syntax diagnostic must sit on the token at the Earley viable-prefix index (or len..len); syntax diagnostics must be strictly increasing and every span inside the source."),
    "C07": ("runtime monitoring: precedence-climbing reference (cross-checked by exhaustive enumeration of binary trees against the declarative rule) vs. the tree the compiled Pratt parser returns for operator expressions",
            "Random Pratt grammars (1-5 recursive branches, infix/prefix/postfix, 1-3 operator tokens, random right declarations) x all operator sequences up to length 3 and random expressions up to 6 operators: the tree equals the reference grouping."),
    "C08": ("runtime monitoring: snapshot/restore probes in a twin of the emitted parser (tree debug string, position, diagnostics, active error state), created/deleted callback pairing, action-in-attempt monitor, and a differential run against the same parser with the abandoned attempts switched off",
            "After every restore the full parser-visible state equals the snapshot; created minus deleted callbacks equals the rule nodes of the final tree; no action runs in an undoable attempt; and for every choice site whose dynamic instances all took alternative k, the same emitted parser with the earlier attempts disabled gives the same tree, diagnostics and actions."),
    "C11": ("runtime monitoring: the real llw (exit status, files written) + rustc on the emitted parser inside a mechanically derived impl, per generated grammar; graph output run on accepted grammars",
            "Every grammar of the campaign goes through the real llw; exit 0 must give a generated.rs that rustc accepts, exit 1 must leave no parser file, any other exit is a crash."),
    "C16": ("runtime monitoring: metamorphic oracle (same input with skipped/Error tokens inserted) on tree and diagnostics + online peek/peek_left monitor inside predicate callbacks",
            "For every input w and variants w' with skipped and Error tokens inserted (every gap / random / ends) the trivia-free trees and the diagnostics (as token-index sequences) are equal; every predicate call sees peek(k)/peek_left(k) equal to the k-th non-skipped token from the cursor."),
}
for _pid, (_tech, _text) in ARENA.items():
    CHECKS[_pid] = dict(technique=_tech, text=_text, note=ARENA_NOTE, design="§3 " + _pid + ", §8")

CHECKS["C19"] = dict(
    technique="runtime monitoring: directory-tree snapshot diff (name, sha256, mtime_ns, mode) + strace log of write-intent system calls around the real `llw` run as an unprivileged user, for every cell of the flag x file-state x output-directory x verdict table; lelwel::build through a real build.rs crate",
    text="Every cell of the table is executed in a fresh directory tree; files created / modified / deleted and the exit status are compared with what the property and --help promise for that cell (nothing in check mode, only the grammar file in format mode, generated.rs iff no error, skeletons iff neither exists, existing lexer.rs / parser.rs byte- and mtime-identical, parser.gv only outside check mode, status 0 iff no error diagnostic). The error verdict per grammar comes from the library through vprobe.",
    note="runs llw as uid 65534 so that read-only directories are effective; strace only sees system calls of the llw process tree; thorough enumerates the whole table, quick the full table of the plain modes plus a rotating sixth of the rest",
    design="§3 C19, §8",
)

CHECKS["C15"] = dict(
    technique="runtime monitoring: differential runs of the real llw in fresh processes (different directories / environments) compared byte for byte, and metamorphic oracle (permuted top-level declarations) on diagnostics, analysis sets (matched through the harness's model) and on the behaviour of both generated parsers compiled into one arena",
    text="Every grammar text of the workload is run three times through llw in fresh processes; outputs, diagnostics and exit status must be identical. Accepted model grammars are permuted at declaration level; warnings (as a multiset), every first/follow/predict/recovery set of every node and the tree / diagnostics / callback trace of the two generated parsers on the campaign inputs must be equal.",
    note="hash-seed dependence is observed through fresh processes (std's RandomState differs per process); the environment variations are a sample; parser behaviour is compared on generated inputs only",
    design="§3 C15, §8",
)

CHECKS["C20"] = dict(
    technique="runtime monitoring: session histories driven in-process through ide::Cache (panic hook on every thread, per-operation watchdog) and over stdio against the real lelwel-ls (JSON-RPC client with random pacing / pipelining, exit status, stderr, /proc thread count), with differential oracles against the library on the latest text and against the harness's grammar model",
    text="Every session must run without a panic in any thread, without a hang, with a response to every request and a clean exit; published diagnostics must equal the library's on the latest text; on model-rendered texts definition / references must equal the model's bindings; hover must show the analysis sets of the innermost node; every range must lie inside the document; formatting must equal format(latest text); stdio answers must equal the in-process answers.",
    note="requests are only sent for open documents; positions inside a surrogate pair or past the line end are checked for survival and range validity only; liveness is restated as a reply within 30 s",
    design="§3 C20, §8",
)

NOT_YET = "check not built yet in this round; design in DESIGN.md §3, build order §7"


def main():
    props = [json.loads(l) for l in (VERIF / "properties.jsonl").read_text().splitlines() if l.strip()]
    checks = []
    na = []
    for p in props:
        pid = p["id"]
        c = CHECKS.get(pid)
        if c is None:
            na.append({"property_id": pid, "reason": NOT_YET})
            continue
        checks.append({
            "property_id": pid,
            "quick_cmd": f"./vf check {pid} --tier quick",
            "thorough_cmd": f"./vf check {pid} --tier thorough",
            "evidence_file": f"/verif/evidence/{pid}.json",
            "replay_cmd_template": "./vf replay {path}",
            "engine": "vf",
            "level_claimed": {"category": c.get("category", "exploration"), "text": c["text"], "design_ref": c["design"]},
            "level_note": c["note"],
            "technique": c["technique"],
        })
    m = {
        "version": 1,
        "setup_cmd": "./vf setup",
        "hooks": {
            "guard": "lelwel_verif",
            "enable": "no source hooks are needed: all observation points are the public API, the ParserCallbacks trait and the emitted parser text (probes are inserted into a copy of generated.rs by the harness); the name --cfg lelwel_verif is reserved",
            "baseline_off_cmd": "cd /repo && cargo test --workspace --no-fail-fast --offline",
            "source_commits": [],
            "add_only": True,
        },
        "engines": [{
            "name": "vf", "path": "/verif/vf",
            "serves_properties": [c["property_id"] for c in checks],
            "kind_free_text": "Python harness (vflib) driving real executions: vprobe (Rust, path dependency on /repo) for analysis/front end/formatter/in-process LS, the real llw and lelwel-ls binaries, and generated-parser arenas compiled by rustc; reference oracles in Python",
        }],
        "checks": checks,
        "not_applicable": na,
        "notes": "exit codes: 0 held, 1 VIOLATION, 3 INCONCLUSIVE (never folded into the other two). Known findings: /verif/known_findings.jsonl.",
    }
    (VERIF / "MANIFEST.json").write_text(json.dumps(m, indent=1) + "\n")
    print(f"MANIFEST.json: {len(checks)} checks, {len(na)} not applicable")


if __name__ == "__main__":
    main()
