"""Special populations of the arena campaign:
   * Pratt grammars + operator expressions + the R-prec reference (C07)
   * labelled buckets: small fixed grammars of shapes that are known (DESIGN §4) to trip a defect,
     each with the inputs that make it manifest.  They keep the main population informative and give
     every known finding / repaired defect a dedicated witness."""
from __future__ import annotations
import random
from .model import (Grammar, Rule, N, name, sym, concat, alt, choice, star, plus, opt, paren, pred, action,
                    assertion, rename, elide, marker, create, commit, ret, parenthesize)


# ---------------------------------------------------------------------------------------------
# C07: Pratt grammars and R-prec
# ---------------------------------------------------------------------------------------------

def pratt_grammar(rng: random.Random):
    """start s; s: e; e: <recursive branches in precedence order> | N | LP e RP"""
    nb = rng.randint(1, 5)
    branches = []      # model branches
    table = []         # (kind, tokens, right_assoc, node_kind) in branch order
    ntok = 0
    right = []
    for i in range(nb):
        kind = rng.choice(["infix", "infix", "infix", "prefix", "postfix"])
        k = rng.choice([1, 1, 2, 3])
        toks = [f"O{ntok + j}" for j in range(k)]
        ntok += k
        ra = False
        if kind == "infix" and rng.random() < 0.45:
            ra = True
            right.extend(toks)
        opn = name(toks[0]) if k == 1 else paren(alt(*[name(t) for t in toks]))
        nk = rng.choice([None, None, f"k{i}"])
        if kind == "infix":
            b = [name("e"), opn, name("e")]
        elif kind == "prefix":
            b = [opn, name("e")]
        else:
            b = [name("e"), opn]
        if nk:
            b.append(rename(nk))
        branches.append(concat(*b))
        table.append((kind, toks, ra, nk or "e"))
    branches.append(name("N"))
    branches.append(concat(name("LP"), name("e"), name("RP")))
    tokens = [("N", None), ("LP", "("), ("RP", ")")] + [(f"O{j}", None) for j in range(ntok)] + [("Ws", None)]
    decls = [("token", tokens), ("skip", ["Ws"])]
    if right:
        rr = list(right)
        rng.shuffle(rr)
        decls.append(("right", rr))
    decls += [("start", "s"), ("rule", Rule("s", name("e"))), ("rule", Rule("e", parenthesize(alt(*branches))))]
    g = Grammar(decls)
    ops = set(t for _, ts, _, _ in table for t in ts)
    infix_only = all(k == "infix" for k, _, _, _ in table)
    shape = "right-branch-with-%d-tokens" % max([len(ts) for k, ts, ra, _ in table if ra], default=0) if right else "left-only"

    nlev = len(table)
    level = {}
    for i, (kind, toks, ra, nk) in enumerate(table):
        for t in toks:
            level[t] = (nlev - i, kind, ra, nk)

    def exprs(rng2, n):
        out = []
        infix = [t for t in ops if level[t][1] == "infix"]
        prefix = [t for t in ops if level[t][1] == "prefix"]
        postfix = [t for t in ops if level[t][1] == "postfix"]

        def operand(depth):
            e = []
            while prefix and rng2.random() < 0.25:
                e.append(rng2.choice(prefix))
            if depth > 0 and rng2.random() < 0.15:
                e += ["LP"] + expr(depth - 1, rng2.randint(0, 2)) + ["RP"]
            else:
                e.append("N")
            while postfix and rng2.random() < 0.25:
                e.append(rng2.choice(postfix))
            return e

        def expr(depth, nops):
            e = operand(depth)
            for _ in range(nops):
                if not infix:
                    break
                e.append(rng2.choice(infix))
                e += operand(depth)
            return e
        # exhaustive operator sequences for small infix sets, random beyond
        if infix and len(infix) <= 4:
            import itertools
            for l in (1, 2, 3):
                for seq in itertools.product(sorted(infix), repeat=l):
                    if len(out) >= n * 2:
                        break
                    e = ["N"]
                    for o in seq:
                        e += [o, "N"]
                    out.append(e)
        for _ in range(n):
            out.append(expr(2, rng2.randint(0, 6)))
        return out

    def prec(toks):
        """reference tree (arena dump format) by precedence climbing on (level, associativity)"""
        pos = [0]

        def cur():
            return toks[pos[0]] if pos[0] < len(toks) else None

        def parse(min_level, strict):
            t = cur()
            if t is None:
                raise ValueError
            if t == "N":
                pos[0] += 1
                lhs = "(e N)"
            elif t == "LP":
                pos[0] += 1
                inner = parse(0, False)
                if cur() != "RP":
                    raise ValueError
                pos[0] += 1
                lhs = f"(e LP {inner} RP)"
            elif t in level and level[t][1] == "prefix":
                lv, _, _, nk = level[t]
                pos[0] += 1
                inner = parse(lv, False)
                lhs = f"({nk} {t} {inner})"
            else:
                raise ValueError
            while True:
                t = cur()
                if t is None or t not in level or level[t][1] == "prefix":
                    return lhs
                lv, kind, ra, nk = level[t]
                if not (lv > min_level or (lv == min_level and not strict)):
                    return lhs
                pos[0] += 1
                if kind == "postfix":
                    lhs = f"({nk} {lhs} {t})"
                else:
                    rhs = parse(lv, not ra)
                    lhs = f"({nk} {lhs} {t} {rhs})"
        try:
            tree = parse(0, False)
            if pos[0] != len(toks):
                return None
        except ValueError:
            return None
        # declarative cross-check for plain infix chains: exactly one binary tree satisfies
        # "no looser operator under a tighter one on the governed side; equal level only on the associative side"
        if infix_only and all(t == "N" or t in level for t in toks) and 3 <= len(toks) <= 11:
            alt_tree = declarative(toks, level)
            if alt_tree is not None and alt_tree != tree:
                return None     # oracle self-check failed: abstain
        return f"(s {tree})"

    meta = {"profile": "pratt", "features": ["pratt"], "exprs": exprs, "prec": prec, "ops": ops, "prec_shape": shape}
    return g, meta


def declarative(toks, level):
    """all binary trees over N op N op ... filtered by the declarative precedence/associativity rule"""
    operands = toks[0::2]
    ops = toks[1::2]
    if any(o != "N" for o in operands):
        return None

    def build(i, j):
        # trees over operands i..j (inclusive); returns list of (tree, root op or None)
        if i == j:
            return [("(e N)", None)]
        out = []
        for k in range(i, j):
            o = ops[k]
            lv, _, ra, nk = level[o]
            for lt, lo in build(i, k):
                if lo is not None:
                    llv = level[lo][0]
                    if llv < lv or (llv == lv and ra):
                        continue
                for rt, ro in build(k + 1, j):
                    if ro is not None:
                        rlv = level[ro][0]
                        if rlv < lv or (rlv == lv and not ra):
                            continue
                    out.append((f"({nk} {lt} {o} {rt})", o))
        return out
    trees = build(0, len(operands) - 1)
    if len(trees) != 1:
        return None
    return trees[0][0]


# ---------------------------------------------------------------------------------------------
# labelled buckets
# ---------------------------------------------------------------------------------------------

def _g(tokens, rules, start="s", skip=(), right=(), parts=()):
    decls = [("token", [(t, None) for t in tokens])]
    if skip:
        decls.append(("skip", list(skip)))
    if right:
        decls.append(("right", list(right)))
    decls.append(("start", start))
    if parts:
        decls.append(("part", list(parts)))
    for nm, rx, el in rules:
        decls.append(("rule", Rule(nm, parenthesize(rx) if rx is not None else None, el)))
    return Grammar(decls)


def known_shapes():
    """(bucket name, grammar, [(entry, tokens)])"""
    A, B, C, D, E = (name(x) for x in "ABCDE")
    n = name
    out = []
    # F2: creation executed while a later marker is still pending (stale mark)
    out.append(("F2-stale-marker", _g("ABCD", [("s", concat(n("t")), False),
                                                ("t", concat(A, marker(1), B, marker(2), C, create(1, "x"), D, create(2, "y")), False)]),
                [("", ["A", "B", "C", "D"])]))
    out.append(("F2-whole-create-inside-marker", _g("ABCD", [("s", n("t"), False),
                                                              ("t", concat(A, marker(1), B, create(None, None), C, create(1, "x"), D), True)]),
                [("", ["A", "B", "C", "D"])]))
    # F3: predicate-guarded nullable alternative at end of input (phantom token)
    out.append(("fixed-F3-guarded-nullable-branch-at-eof", _g("AB", [("s", n("f"), False),
                                                                ("f", alt(concat(pred(1), opt(A)), B), False)]),
                [("", []), ("", ["A"]), ("", ["B"])]))
    # F3 variant: ordered choice whose alternatives are not predicted at end of input
    out.append(("fixed-F3-choice-at-eof", _g("ABCD", [("s", concat(A, choice(concat(B, C), concat(B, D))), False)]),
                [("", ["A"]), ("", ["A", "B"]), ("", ["A", "B", "D"])]))
    # F4: guard exempts the conflict of a non-consuming recursion
    out.append(("F4-guarded-empty-recursion", _g("A", [("s", n("a"), False),
                                                        ("a", alt(concat(pred("t"), paren(), n("a")), A), False)]),
                [("", ["A"])]))
    # F5: accepted but not compilable shapes
    out.append(("fixed-F5-rule-only-reachable-from-part", _g("AB", [("s", A, False), ("p", concat(B, n("q")), False), ("q", A, False)], parts=["p"]),
                [("", ["A"]), ("p", ["B", "A"])]))
    out.append(("fixed-F5-rename-in-start-rule", _g("AB", [("s", concat(A, rename("x")), False)]), [("", ["A"])]))
    out.append(("fixed-F5-whole-create-without-elision", _g("AB", [("s", n("t"), False), ("t", concat(A, create(None, "x"), B), False)]),
                [("", ["A", "B"])]))
    out.append(("fixed-F5-guarded-nullable-loop-body-now-rejected", _g("AB", [("s", concat(star(paren(concat(pred("t"), paren()))), A), False)]),
                [("", ["A"])]))
    out.append(("fixed-F5-empty-rule", _g("AB", [("s", concat(A, n("t")), False), ("t", None, False)]), [("", ["A"])]))
    # F11: a non-last alternative succeeds without commit; a later mismatch in a shared rule
    out.append(("fixed-F11-choice-flag-leaks", _g("ABCDE", [("s", concat(n("t"), n("u"), E), False),
                                                       ("t", paren(choice(concat(n("u"), B, C), concat(n("u"), D))), False),
                                                       ("u", plus(A), False)]),
                [("", ["A", "B", "C", "E"]), ("", ["A", "B", "C", "A", "E"]), ("", ["A", "D", "E"]), ("", ["A", "D", "A", "E"])]))
    # F14: semantic operator in front of the left operand of a Pratt branch
    out.append(("F14-semop-before-left-operand", _g(["N", "P"], [("s", n("e"), False),
                                                                   ("e", alt(concat(action(1), n("e"), n("P"), n("e")), n("N")), False)]),
                [("", ["N", "P", "N"]), ("", ["N"])]))
    # F15: creation inside a choice attempt for a marker that was set before the choice
    out.append(("F15-creation-in-attempt-for-outer-marker", _g("ABCD", [("s", concat(marker(1), A, paren(choice(concat(B, create(1, "x"), C), concat(B, D)))), False)]),
                [("", ["A", "B", "D"]), ("", ["A", "B", "C"])]))
    # F18: `&` in a rule that is also called from an ordered-choice alternative returns None to every caller
    out.append(("F18-return-in-rule-shared-with-choice", _g("ABCXY", [("s", paren(choice(concat(n("r"), B), concat(n("r"), C))), False),
                                                                       ("r", concat(n("q"), n("Y")), False),
                                                                       ("q", concat(A, ret(), n("X")), False)], parts=["r"]),
                [("r", ["Y"]), ("r", ["A", "X", "Y"]), ("", ["A", "X", "Y", "C"]), ("", ["X", "Y", "C"])]))
    # F18 (compile side): `&` behind a commit in a rule used inside a choice is emitted as `return;` in a function returning Option<()>
    out.append(("F18-return-after-commit-in-rule-shared-with-choice", _g("ABC", [("s", concat(paren(choice(n("x"), concat(A, B))), C), False),
                                                                                  ("x", concat(A, commit(), B, ret(), C), False)]),
                [("", ["A", "B", "C", "C"])]))
    # repaired defects kept as regression witnesses (must stay silent)
    out.append(("fixed-iteration-without-progress", _g("ABCX", [("s", concat(star(paren(concat(n("r"), n("r"), n("X")))), C), False),
                                                                  ("r", star(paren(concat(pred(1), A, B))), False)]),
                [("", ["A", "C"]), ("", ["A", "B", "A", "B", "X", "C"]), ("", ["A"])]))
    out.append(("fixed-nameless-creation-in-attempt", _g("ABCD", [("s", n("r"), False),
                                                                   ("r", choice(concat(A, marker(1), B, create(1, None), C), concat(A, B, D)), False)]),
                [("", ["A", "B", "D"]), ("", ["A", "B", "C"]), ("", ["A", "B"])]))
    out.append(("fixed-pratt-rule-in-choice", _g(["N", "P", "X"], [("s", choice(concat(n("e"), n("e"), n("e")), concat(n("e"), n("e"), n("X"))), False),
                                                                    ("e", alt(concat(n("e"), n("P"), n("e")), n("N")), False)]),
                [("", ["N", "N", "X"]), ("", ["N", "P", "N", "N", "X"]), ("", ["N", "N", "N"])]))
    out.append(("fixed-part-rule-in-choice", _g("ABC", [("s", choice(concat(n("r"), A), concat(n("r"), B)), False), ("r", C, False)], parts=["r"]),
                [("r", ["C"]), ("", ["C", "B"])]))
    out.append(("fixed-error-state-leaks-from-attempt", _g("ABCXY", [("s", concat(A, paren(choice(concat(B, C), concat(opt(n("X")), n("Y"))))), False)]),
                [("", ["B"]), ("", ["B", "Y"]), ("", ["A", "B"])]))
    # repaired: `e: e @x | A` (looped forever before the E015 repair) must now be rejected
    out.append(("fixed-left-recursive-branch-without-operator", _g("A", [("e", alt(concat(n("e"), rename("x")), A), False)], start="e"),
                [("", ["A"])]))
    return out


# ---------------------------------------------------------------------------------------------
# C11: one injected error per grammar
# ---------------------------------------------------------------------------------------------

def injected_errors(rng: random.Random, grammars):
    """(label, grammar text) pairs: an accepted model grammar rendered canonically with one error spliced in"""
    from .model import render
    out = []
    inj = [
        ("E003-undefined-rule", lambda t: _after_first_rule_colon(t, " undefined_rule_x "), None),
        ("E012-left-rec-conflict", lambda t: "token Zl Zn ;\n" + t + "lrc : lrc Zl lrc | lrc Zl | Zn ;\npart lrc ;\n", None),
        ("E004-undefined-token", lambda t: _after_first_rule_colon(t, " Undefined_tok "), None),
        ("E005-redefinition", lambda t: t + "s : s_again ;\ns_again : ;\n", None),
        ("E006-uppercase-rule", lambda t: t + "Upper : ;\n", None),
        ("E007-lowercase-token", lambda t: "token lower ;\n" + t, None),
        ("E008-missing-start", lambda t: "\n".join(l for l in t.split("\n") if not l.startswith("start ")), None),
        ("E009-reference-start", lambda t: t + "refs_start : s ;\npart refs_start ;\n", None),
        ("E010-predefined-name", lambda t: "token EOF ;\n" + t, None),
        ("E011-alt-conflict", lambda t: "token Zc ;\n" + t + "conflict_rule : Zc | Zc Zc ;\npart conflict_rule ;\n", None),
        ("E013-rep-conflict", lambda t: "token Zc ;\n" + t + "conflict_rule : Zc * Zc ;\npart conflict_rule ;\n", None),
        ("E014-opt-conflict", lambda t: "token Zc ;\n" + t + "conflict_rule : [ Zc ] Zc ;\npart conflict_rule ;\n", None),
        ("E015-no-tokens-consumed", lambda t: t + "empty_rec : empty_rec2 ;\nempty_rec2 : empty_rec ;\npart empty_rec ;\n", None),
        ("E016-skip-twice", lambda t: "token Zs ;\nskip Zs ;\nskip Zs ;\n" + t, None),
        ("E017-used-skipped", lambda t: "token Zs ;\nskip Zs ;\n" + t + "uses_skipped : Zs ;\npart uses_skipped ;\n", None),
        ("E018-expected-token", lambda t: t + "skip s ;\n", None),
        ("E019-right-twice", lambda t: "token Zr ;\nright Zr ;\nright Zr ;\n" + t, None),
        ("E020-mixed-assoc", lambda t: "token Zr Zl Zn ;\nright Zr ;\n" + t + "mixed : mixed ( Zr | Zl ) mixed | Zn ;\npart mixed ;\n", None),
        ("E021-elide-left-rec", lambda t: "token Zl Zn ;\n" + t + "elr : elr Zl ^ | Zn ;\npart elr ;\n", None),
        ("E022-marker-twice", lambda t: "token Zn ;\n" + t + "mk : <1 Zn <1 Zn 1>x ;\npart mk ;\n", None),
        ("E023-undefined-creation", lambda t: "token Zn ;\n" + t + "mk : Zn 7>x ;\npart mk ;\n", None),
        ("E024-invalid-creation", lambda t: "token Zn ;\n" + t + "mk : ( <1 Zn ) 1>x ;\npart mk ;\n", None),
        ("E025-rule-creation-left-rec", lambda t: "token Zl Zn ;\n" + t + "crl : crl Zl > | Zn ;\npart crl ;\n", None),
        ("E026-expected-rule", lambda t: "token Zn ;\n" + t + "part Zn ;\n", None),
        ("E027-missing-node-name", lambda t: "token Zn ;\n" + t + "mn : Zn @ ;\npart mn ;\n", None),
        ("E028-nested-choice", lambda t: "token Za Zb ;\n" + t + "nc : nc2 Za / nc2 Zb ;\nnc2 : Za Za / Za Zb ;\npart nc ;\n", None),
        ("E029-action-in-choice", lambda t: "token Za Zb ;\n" + t + "ac : Za #1 Za / Za Zb ;\npart ac ;\n", None),
        ("E030-return-in-start", lambda t: _after_first_rule_colon(t, " & ", rule="s"), None),
        ("E031-two-starts", lambda t: t + "start s ;\n", None),
        ("E032-elision-in-start", lambda t: _after_first_rule_colon(t, " ^ ", rule="s"), None),
        ("E033-part-twice", lambda t: "token Zn ;\n" + t + "pt : Zn ;\npart pt ;\npart pt ;\n", None),
        ("E034-start-as-part", lambda t: t + "part s ;\n", None),
        ("syntax-error", lambda t: t.replace(" ;\n", " ( ;\n", 1), None),
        ("E002-predicate-position", lambda t: "token Zn ;\n" + t + "pp : Zn ?1 Zn ;\npart pp ;\n", None),
    ]
    if not grammars:
        return out
    for i, (label, f, _) in enumerate(inj):
        g = grammars[i % len(grammars)]
        t = render(g)
        g.text = None
        t2 = f(t)
        if t2 and t2 != t:
            out.append((label, t2))
    return out


def _after_first_rule_colon(t, ins, rule=None):
    import re as _re
    m = _re.search((r"^" + rule + r" :") if rule else r"^[a-z]\w* :", t, _re.M)
    if not m:
        return None
    return t[:m.end()] + ins + t[m.end():]


# ---------------------------------------------------------------------------------------------
# interaction templates: randomized compositions of features whose *combination* is delicate
# (the random generator reaches each feature often, a given conjunction of four rarely)
# ---------------------------------------------------------------------------------------------

def interaction_grammar(rng: random.Random):
    r = rng.random()
    if r < 0.34:
        return _interaction_shared_guarded_rule(rng)
    if r < 0.67:
        return _interaction_choice_closing_rule(rng)
    return _interaction_choice_state(rng)


def _interaction_choice_state(rng: random.Random):
    """a three- or four-way ordered choice whose alternatives rename / elide the rule node *before* the token at which
    they can fail, so that an abandoned attempt has rule-node state to leave behind and a middle alternative can inherit it"""
    n = name
    toks = ["P", "Q", "R", "S", "T", "U", "SEMI", "V"]
    names = ["n1", "n2", "n3"]
    use_elide = rng.random() < 0.5

    def alt_(seq, may_rename, may_elide):
        items = [n("P")]
        sem = []
        if may_rename and rng.random() < 0.7:
            sem.append(rename(rng.choice(names)))
        if may_elide and use_elide and rng.random() < 0.5:
            sem.append(elide())
        body = [n(t) for t in seq]
        pos = rng.randint(0, max(0, len(body) - 1))        # before the last token: runs before the attempt can fail there
        return concat(*(items + body[:pos] + sem + body[pos:]))

    alts = [alt_(["Q", "R"], True, True), alt_(["Q", "S"], rng.random() < 0.4, False), alt_(["T", "V"], True, True)]
    if rng.random() < 0.5:
        alts.insert(2, alt_(["Q", "U"], rng.random() < 0.3, False))
    alts.append(alt_(["U"], rng.random() < 0.5, False))
    rules = [("s", star(paren(concat(n("r"), n("SEMI")))), False), ("r", choice(*alts), False)]
    skip = ["Ws"] if rng.random() < 0.5 else []
    g = _g(toks + skip, rules, skip=skip)
    return g, {"profile": "interaction", "features": ["choice", "rename_in_choice", "star", "choice_state"] + (["elide_atom", "elide_in_choice"] if use_elide else []), "skipped": skip}


def _interaction_choice_closing_rule(rng: random.Random):
    """an ordered choice that is the last thing before its (non-elided) rule closes, whose last alternative can match the
    empty word, with further nodes following in the parent: after an abandoned attempt the node closes on restored state"""
    n = name
    toks = ["ID", "COLON", "LABEL", "NUM", "SEMI", "LP", "RP", "EQ"]
    first = concat(n("ID"), n("COLON")) if rng.random() < 0.6 else concat(n("ID"), n("EQ"), n("COLON"))
    alts = [first]
    if rng.random() < 0.4:
        alts.append(concat(n("ID"), n("EQ"), n("EQ")))
    alts.append(opt(n("LABEL")) if rng.random() < 0.7 else star(n("LABEL")))
    lab_body = choice(*alts)
    if rng.random() < 0.3:
        lab_body = concat(n("EQ"), lab_body)
    e_body = alt(n("ID"), n("NUM"), concat(n("LP"), n("e"), n("RP")))
    stmt = concat(n("lab"), n("e"), n("SEMI"))
    if rng.random() < 0.4:
        stmt = concat(marker(1), n("lab"), n("e"), create(1, "head"), n("SEMI"))
    rules = [("s", star(n("stmt")), False), ("stmt", stmt, False), ("lab", lab_body, rng.random() < 0.2), ("e", e_body, False)]
    skip = ["Ws"] if rng.random() < 0.7 else []
    g = _g(toks + skip, rules, skip=skip, parts=["stmt"] if rng.random() < 0.3 else [])
    return g, {"profile": "interaction", "features": ["choice", "choice_nullable_last", "star", "alt", "choice_closing_rule"], "skipped": skip}


def _interaction_shared_guarded_rule(rng: random.Random):
    """a rule with predicate-guarded alternatives that is (a) tried inside a non-final ordered-choice alternative and
    (b) the first element of a repetition outside any choice; plus a part entry for the shared rule"""
    n = name
    toks = ["K", "X", "Y", "A", "B", "C", "N", "I", "SEP", "Z"]
    guarded_e = [concat(pred(1), n("A"), n("B"))]
    if rng.random() < 0.5:
        guarded_e.append(concat(pred(2), n("C")))
    plain_e = [n("N")]
    if rng.random() < 0.4:
        plain_e.append(concat(n("I"), opt(n("B"))))
    e_alts = guarded_e + plain_e
    rng.shuffle(e_alts)
    e_pratt = rng.random() < 0.35
    if e_pratt:
        e_body = alt(concat(n("e"), n("Z"), n("e")), *e_alts)
    else:
        e_body = alt(*e_alts)
    loop = star if rng.random() < 0.6 else plus
    sep = [n("SEP")] if rng.random() < 0.7 else []
    t_alts = [concat(n("K"), n("e"), n("X")), concat(n("K"), n("e"), n("Y"))]
    if rng.random() < 0.5:
        t_alts.insert(1, concat(n("K"), n("e"), commit(), n("X"), n("X")))
    t_alts.append(n("K"))
    s_body = concat(loop(paren(concat(n("e"), *sep))), opt(n("t")))
    rules = [("s", s_body, False), ("t", choice(*t_alts), False), ("e", e_body, False)]
    parts = ["e"] if rng.random() < 0.5 else []
    skip = ["Ws"] if rng.random() < 0.5 else []
    g = _g(toks + skip, rules, skip=skip, parts=parts)
    return g, {"profile": "interaction", "features": ["pred_user", "choice", "alt", "star", "shared_guarded_rule"] + (["pratt"] if e_pratt else []) + (["parts"] if parts else []), "skipped": skip}
