"""writes seeded/<id>/meta.json from seeded/needs.json + detect.json, and prints the catch matrix (markdown)"""
import json
from pathlib import Path

VERIF = Path(__file__).resolve().parent.parent


def main():
    needs = json.loads((VERIF / "seeded" / "needs.json").read_text())
    rows = []
    for d in sorted((VERIF / "seeded").iterdir()):
        if not d.is_dir() or not (d / "patch.diff").exists():
            continue
        sid = d.name
        det = json.loads((d / "detect.json").read_text()) if (d / "detect.json").exists() else {}
        nd = needs.get(sid, {})
        caught = [p for p, r in det.get("checks", {}).items() if r.get("exit") == 1 and r.get("violations")]
        incon = [p for p, r in det.get("checks", {}).items() if r.get("exit") == 3]
        meta = {"id": sid, "property": sid.split("-")[0], "change": nd.get("change"), "breaks": nd.get("breaks"), "needs_to_manifest": nd.get("needs"),
                "confirmed": det.get("confirm"), "ran": {"tool": "python3 -m vflib.seedtest seeded/" + sid + " " + " ".join(det.get("checks", {}).keys()),
                                                         "tier": det.get("tier"), "seed": det.get("seed"), "repo_head": det.get("worktree_head")},
                "caught_by": caught, "inconclusive": incon,
                "first_signatures": {p: (r.get("details") or [""])[0][:200] for p, r in det.get("checks", {}).items() if r.get("exit") == 1}}
        (d / "meta.json").write_text(json.dumps(meta, indent=1, ensure_ascii=False))
        c = det.get("confirm") or {}
        ok = (c.get("tests_with_change", {}).get("passed") == 59 and c.get("tests_with_change", {}).get("failed") == 0 and c.get("demo_with_change_exit") not in (0, None) and c.get("demo_without_change_exit") == 0)
        rows.append((sid, nd.get("change", "?"), "yes" if ok else ("?" if not c else "NO"), ", ".join(caught) or "—", det.get("tier", "")))
    print("| seeded change | what it changes | confirmed (59 tests pass, demo fails/passes) | caught by (quick, seed 1) |")
    print("|---|---|---|---|")
    for r in rows:
        print(f"| {r[0]} | {r[1]} | {r[2]} | {r[3]} |")


if __name__ == "__main__":
    main()
