"""Workload generators for grammar *analysis* properties (G-any): exhaustive small
grammars and random larger ones.  Parser-behaviour grammars (G-valid) live in gvalid.py."""
from __future__ import annotations
import itertools
import random
from functools import lru_cache
from .model import (Grammar, Rule, N, name, concat, alt, choice, star, plus, opt, paren, pred, action,
                    assertion, rename, elide, marker, create, commit, ret, parenthesize)


# ---------------------------------------------------------------------------
# exhaustive enumeration
# ---------------------------------------------------------------------------

def _trees(atoms: tuple, size: int, with_ternary=True):
    """all abstract regex trees (tuples) with exactly `size` nodes"""
    @lru_cache(maxsize=None)
    def T(s):
        out = []
        if s == 1:
            return [("atom", a) for a in atoms]
        for sub in T(s - 1):
            for op in ("star", "plus", "opt"):
                # `x**`-style double postfix is legal but adds little; keep opt/star nests
                out.append((op, sub))
        for l in range(1, s - 1):
            r = s - 1 - l
            for a in T(l):
                for b in T(r):
                    out.append(("concat", a, b))
                    out.append(("alt", a, b))
        if with_ternary and s >= 4:
            for l in range(1, s - 2):
                for m in range(1, s - 1 - l):
                    r = s - 1 - l - m
                    if r < 1:
                        continue
                    for a in T(l):
                        for b in T(m):
                            for c in T(r):
                                out.append(("alt", a, b, c))
        return out
    return T(size)


def _build(t) -> N:
    k = t[0]
    if k == "atom":
        a = t[1]
        if a == "()":
            return paren()
        if a.startswith("?"):
            return pred(a[1:] if a[1:] == "t" else int(a[1:]))
        return name(a)
    if k in ("star", "plus", "opt"):
        return N(k, [_build(t[1])])
    return N(k, [_build(x) for x in t[1:]])


def small_grammars(max_total: int, ntokens=2, nrules=2, with_empty=True, with_parts=False):
    """yields a spec (see mk_small) for every grammar `token ..; start s; s: X; [r: Y;]` with |X|+|Y| <= max_total.
    The start rule may refer to r; r may refer to itself (left/hidden/indirect recursion)."""
    toks = ["A", "B", "C"][:ntokens]
    atoms_s = tuple(toks + (["r"] if nrules > 1 else []) + (["()"] if with_empty else []))
    atoms_r = atoms_s
    for total in range(1, max_total + 1):
        if nrules == 1:
            for t in _trees(atoms_s, total):
                yield (toks, [("s", t)], [])
            continue
        for s1 in range(1, total):
            s2 = total - s1
            for t1 in _trees(atoms_s, s1):
                if "r" not in repr(t1):
                    continue  # r unreachable -> not reduced (parts variant below)
                for t2 in _trees(atoms_r, s2):
                    yield (toks, [("s", t1), ("r", t2)], [])
        if with_parts:
            for s1 in range(1, total):
                s2 = total - s1
                for t1 in _trees(tuple(toks), s1, with_ternary=False):
                    for t2 in _trees(atoms_r, s2):
                        yield (toks, [("s", t1), ("r", t2)], ["r"])


def mk_small(spec) -> Grammar:
    return _mk(*spec)


def _mk(toks, rules, parts) -> Grammar:
    decls = [("token", [(t, None) for t in toks]), ("start", rules[0][0])]
    if parts:
        decls.append(("part", list(parts)))
    for nm, t in rules:
        decls.append(("rule", Rule(nm, parenthesize(_build(t)))))
    return Grammar(decls)


# ---------------------------------------------------------------------------
# random larger grammars (analysis only: conflicts welcome)
# ---------------------------------------------------------------------------

class AnyGen:
    def __init__(self, rng: random.Random):
        self.rng = rng

    def regex(self, depth, toks, rules, start_rule: bool, top=False):
        rng = self.rng
        r = rng.random()
        if depth <= 0 or r < 0.25:
            return self.atom(toks, rules, start_rule)
        if r < 0.45:
            n = rng.choice([2, 2, 3, 4])
            return concat(*[self.regex(depth - 1, toks, rules, start_rule) for _ in range(n)])
        if r < 0.65:
            n = rng.choice([2, 2, 3])
            ops = []
            for _ in range(n):
                b = self.regex(depth - 1, toks, rules, start_rule)
                if rng.random() < 0.2:
                    p = pred(rng.choice(["t", 1, 2]))
                    b = concat(p, *(b.ops if b.k == "concat" else [b]))
                ops.append(b)
            return alt(*ops)
        body = self.regex(depth - 1, toks, rules, start_rule)
        if rng.random() < 0.15:
            body = concat(pred(rng.choice(["t", 1])), *(body.ops if body.k == "concat" else [body]))
        if r < 0.77:
            return star(body)
        if r < 0.85:
            return plus(body)
        if r < 0.97:
            return opt(body)
        return paren()

    def atom(self, toks, rules, start_rule):
        rng = self.rng
        r = rng.random()
        if r < 0.55 or not rules:
            return name(rng.choice(toks))
        if r < 0.90:
            return name(rng.choice(rules))
        # semantic operators: nullable atoms as far as the analysis is concerned
        c = rng.random()
        if c < 0.3:
            return action(rng.randint(1, 2))
        if c < 0.6:
            return assertion(rng.randint(1, 2))
        if c < 0.8:
            return rename("rn")
        if c < 0.9 and not start_rule:
            return ret()
        return paren()

    def pratt_rule(self, nm, toks, rules):
        """a directly left-recursive rule with random operator branches (conflicts possible)"""
        rng = self.rng
        ops = []
        nb = rng.randint(1, 4)
        for _ in range(nb):
            kind = rng.random()
            t = lambda: name(rng.choice(toks))
            tset = lambda: (t() if rng.random() < 0.6 else paren(alt(t(), t())))
            if kind < 0.5:
                b = [name(nm), tset(), name(nm)]
            elif kind < 0.65:
                b = [tset(), name(nm)]
            elif kind < 0.8:
                b = [name(nm), tset()]
            elif kind < 0.9:
                b = [name(nm), t(), name(nm), t(), name(nm)]
            else:
                b = [name(nm), t(), rng.choice([name(nm), name(rng.choice(rules)) if rules else t()]), t()]
            if rng.random() < 0.15:
                b.insert(0, pred(rng.choice(["t", 1])))
            ops.append(concat(*b))
        na = rng.randint(1, 2)
        for _ in range(na):
            a = rng.random()
            if a < 0.6:
                ops.append(name(rng.choice(toks)))
            elif a < 0.8:
                ops.append(concat(name(rng.choice(toks)), name(nm), name(rng.choice(toks))))
            else:
                ops.append(concat(name(rng.choice(toks)), opt(name(nm))))
        return alt(*ops)

    def grammar(self) -> Grammar:
        rng = self.rng
        nt = rng.randint(2, 6)
        toks = [chr(ord("A") + i) for i in range(nt)]
        nr = rng.randint(1, 5)
        rnames = ["s"] + [f"r{i}" for i in range(1, nr)]
        others = rnames[1:]
        decls = [("token", [(t, None) for t in toks])]
        rules = []
        for i, nm in enumerate(rnames):
            if i > 0 and rng.random() < 0.25:
                rx = self.pratt_rule(nm, toks, others)
            else:
                rx = self.regex(rng.randint(1, 4), toks, others, start_rule=(i == 0), top=True)
            rules.append(Rule(nm, parenthesize(rx)))
        parts = [nm for nm in others if rng.random() < 0.15]
        if rng.random() < 0.2 and toks:
            decls.append(("right", [rng.choice(toks)]))
        decls.append(("start", "s"))
        if parts:
            decls.append(("part", parts))
        for r in rules:
            decls.append(("rule", r))
        if rng.random() < 0.3:
            head = decls[:1]
            rest = decls[1:]
            rng.shuffle(rest)
            decls = head + rest
        return Grammar(decls)


# ---------------------------------------------------------------------------
# purely syntactic grammar structures (C13): every declaration kind and regex operator
# ---------------------------------------------------------------------------

SYM_BODIES = ["+", "a b", "if", "'", "\\", "\\'", "<id>", "é→x", "//", "/*", "*/x", ";", ":", "|", "", "  ", "'\\'"]
IDS = ["a", "b", "expr", "x_1", "tokens", "starts", "Right", "Z9", "part_", "skipper", "T", "r2d2", "e"]


class SynGen:
    def __init__(self, rng: random.Random, max_depth=5):
        self.rng = rng
        self.max_depth = max_depth

    def ident(self):
        return self.rng.choice(IDS)

    def num(self):
        return self.rng.choice([0, 1, 2, 7, 10, 42, "007", "00"])

    def atom(self):
        rng = self.rng
        r = rng.random()
        if r < 0.30:
            return name(self.ident())
        if r < 0.45:
            return N("sym", v=rng.choice(SYM_BODIES))
        k = rng.choice(["pred", "pred_t", "action", "assert", "rename", "elide", "marker", "create", "create_n",
                        "create_nn", "create_w", "commit", "return", "empty"])
        if k == "pred":
            return pred(self.num())
        if k == "pred_t":
            return pred("t")
        if k == "action":
            return action(self.num())
        if k == "assert":
            return assertion(self.num())
        if k == "rename":
            return rename(self.ident())
        if k == "elide":
            return elide()
        if k == "marker":
            return marker(self.num())
        if k == "create":
            return create(self.num(), self.ident())
        if k == "create_n":
            return create(self.num(), None)
        if k == "create_nn":
            return create(None, self.ident())
        if k == "create_w":
            return create(None, None)
        if k == "commit":
            return commit()
        if k == "return":
            return ret()
        return paren()

    def regex(self, depth):
        rng = self.rng
        if depth <= 0:
            return self.atom()
        r = rng.random()
        if r < 0.2:
            return self.atom()
        if r < 0.4:
            return concat(*[self.regex(depth - 1) for _ in range(rng.randint(2, 4))])
        if r < 0.55:
            return alt(*[self.regex(depth - 1) for _ in range(rng.randint(2, 4))])
        if r < 0.68:
            return choice(*[self.regex(depth - 1) for _ in range(rng.randint(2, 3))])
        if r < 0.76:
            return star(self.regex(depth - 1))
        if r < 0.84:
            return plus(self.regex(depth - 1))
        if r < 0.92:
            return opt(self.regex(depth - 1))
        return paren(self.regex(depth - 1))   # redundant parentheses

    def ref(self):
        if self.rng.random() < 0.6:
            return self.ident()
        from .model import esc_sym
        return "'" + esc_sym(self.rng.choice(SYM_BODIES)) + "'"

    def grammar(self) -> Grammar:
        rng = self.rng
        decls = []
        for _ in range(rng.randint(1, 8)):
            k = rng.choice(["token", "rule", "rule", "rule", "start", "right", "skip", "part"])
            if k == "token":
                toks = []
                for _ in range(rng.randint(1, 4)):
                    toks.append((self.ident(), rng.choice(SYM_BODIES) if rng.random() < 0.5 else None))
                decls.append(("token", toks))
            elif k == "rule":
                rx = None if rng.random() < 0.08 else parenthesize(self.regex(rng.randint(0, self.max_depth)))
                decls.append(("rule", Rule(self.ident(), rx, rng.random() < 0.2)))
            elif k == "start":
                decls.append(("start", self.ident()))
            elif k in ("right", "skip"):
                decls.append((k, [self.ref() for _ in range(rng.randint(1, 3))]))
            else:
                decls.append(("part", [self.ident() for _ in range(rng.randint(1, 3))]))
        return Grammar(decls)
