"""background runner: tries every seeded change that has no detect.json yet against the checks of its property
(and, for generated-parser properties, against all arena checks, which share one campaign)"""
import subprocess
import sys
import time
from pathlib import Path

VERIF = Path(__file__).resolve().parent.parent
ARENA = ["C01", "C02", "C03", "C04", "C05", "C06", "C07", "C08", "C11", "C16"]
EXTRA = {"C04": ["C09"], "C06": ["C09"], "C09": ["C10", "C14", "C20"], "C10": ["C09"], "C14": ["C09"], "C17": ["C18"], "C18": ["C17"], "C12": ["C17"], "C13": ["C12"],
         "C15": [], "C19": [], "C20": []}


def main():
    idle = 0
    while idle < 240:
        todo = [d for d in sorted((VERIF / "seeded").iterdir()) if d.is_dir() and (d / "patch.diff").exists() and not (d / "detect.json").exists()]
        if not todo:
            idle += 1
            time.sleep(30)
            continue
        idle = 0
        d = todo[0]
        pid = d.name.split("-")[0]
        ids = [pid] + ([x for x in ARENA if x != pid] if pid in ARENA else []) + EXTRA.get(pid, [])
        with open("/tmp/seedqueue.log", "a") as f:
            f.write(f"=== {d.name} {ids}\n")
            f.flush()
            subprocess.run([sys.executable, "-m", "vflib.seedtest", str(d)] + ids, cwd=str(VERIF), stdout=f, stderr=subprocess.STDOUT)
        if not (d / "detect.json").exists():
            (d / "detect.json").write_text('{"error": "seedtest failed, see /tmp/seedqueue.log"}')


if __name__ == "__main__":
    main()
