"""Arenas: crates with one module per generated parser (pristine + probed twin), built by rustc
and run on job files.  See DESIGN §2.1 (E3) and §2.2."""
from __future__ import annotations
import json
import os
import re
import shutil
import subprocess
import time
from pathlib import Path
from .model import Grammar, render
from .refsets import pascal
from .tools import VERIF, WORK, CACHE, ENV, build_bins, log, Inconclusive

TMPL = VERIF / "rust" / "arena_tmpl"
POOL = "abcdefghijklmnopqrstuvwxyzABCDEFGHIJKLMNOPQRSTUVWXYZ0123456789"
FILLER = "_"
TRIVIA_LEX = {"Ws": " ", "Cm": "#_"}
ERROR_LEX = "!"


def lexemes_for(g: Grammar):
    """unique first character per token kind, widths 1..3 bytes, one kind with a 2-byte character"""
    lx = {}
    skipped = set(g.skipped)
    i = 0
    for nm in g.token_names:
        if nm in skipped:
            lx[nm] = TRIVIA_LEX.get(nm, "~" + FILLER * (len(lx) % 2))
            continue
        c = POOL[i % len(POOL)]
        if i == 3:
            c = "é"
        lx[nm] = c + FILLER * (i % 3)
        i += 1
    return lx


class Unit:
    """one grammar in an arena"""

    def __init__(self, gid: str, g: Grammar, meta=None, variant_of=None):
        self.gid = gid
        self.g = g
        self.meta = meta or {}
        self.text = render(g) if g.text is None else g.text
        self.lex = lexemes_for(g)
        self.entries = [""] + list(g.parts)
        self.accepted = None
        self.llw_exit = None
        self.llw_stderr = ""
        self.generated = None
        self.files = []
        self.compile_error = None
        self.probe_counts = {}
        self.variant_of = variant_of

    def source_of(self, toks):
        return "".join(self.lex.get(t, ERROR_LEX) if t != "Error" else ERROR_LEX for t in toks)


# ---------------------------------------------------------------------------------------------
# running the real generator
# ---------------------------------------------------------------------------------------------

def run_llw(units, root: Path, jobs=16):
    """writes each grammar to its own directory and runs the real `llw`; fills accepted / generated"""
    bins = build_bins("release")
    llw = str(bins["llw"])
    gram = root / "gram"
    gram.mkdir(parents=True, exist_ok=True)
    procs = []

    def launch(u):
        d = gram / u.gid
        d.mkdir(exist_ok=True)
        (d / "g.llw").write_bytes(u.text.encode())
        # -g: the graph output runs on every accepted grammar as well (C11: it must not panic)
        return subprocess.Popen([llw, "-g", "-o", str(d), str(d / "g.llw")], cwd=str(d), env=ENV,
                                stdout=subprocess.DEVNULL, stderr=subprocess.PIPE)

    pending = list(units)
    running = []
    while pending or running:
        while pending and len(running) < jobs:
            u = pending.pop()
            running.append((u, launch(u)))
        u, p = running.pop(0)
        _, err = p.communicate()
        u.llw_exit = p.returncode
        u.llw_stderr = err.decode(errors="replace")
        d = gram / u.gid
        u.files = sorted(x.name for x in d.iterdir())
        gen = d / "generated.rs"
        u.accepted = (p.returncode == 0)
        if gen.exists():
            u.generated = gen.read_text()


# ---------------------------------------------------------------------------------------------
# probes: line-anchored rewriting of a *copy* of the emitted parser
# ---------------------------------------------------------------------------------------------

def insert_probes(text: str):
    """returns (probed text, counts).  Every probe is optional; a missing anchor only downgrades the
    sub-monitor that needs it (the caller compares counts with what the grammar model predicts)."""
    lines = text.split("\n")
    out = []
    counts = {"snap": 0, "restore": 0, "alt": 0, "loop": 0, "rule": 0, "sites": 0}
    in_rules = False
    setstate_ind = None
    site = -1
    alt_k = 0
    choice_stack = []   # (indent of `let state`, parser name, site)
    i = 0
    n = len(lines)
    while i < n:
        ln = lines[i]
        st = ln.strip()
        out.append(ln)
        ind = len(ln) - len(ln.lstrip())
        if st.startswith("fn get_state(") and st.endswith("{"):
            out.append(" " * (ind + 4) + "self.probe_snap(diags);")
            counts["snap"] += 1
        elif st.startswith("fn set_state(") and setstate_ind is None:
            setstate_ind = ind
        elif setstate_ind is not None and setstate_ind >= 0 and ln == " " * setstate_ind + "}":
            # last statement of set_state: everything the parser restores has been restored
            out.pop()
            out.append(" " * (setstate_ind + 4) + "self.probe_restore(diags);")
            out.append(ln)
            counts["restore"] += 1
            setstate_ind = -1
        elif st.startswith("fn rule_") and st.endswith("{"):
            in_rules = True
            nm = st[len("fn rule_"):st.index("(")]
            out.append(" " * (ind + 4) + f'self.probe_rule("{nm}");')
            counts["rule"] += 1
        elif st.startswith("fn rec<'a>("):
            # multi-line signature: find the line that opens the body
            j = i + 1
            while j < n and not lines[j].strip().endswith("{"):
                out.append(lines[j])
                j += 1
            if j < n:
                out.append(lines[j])
                out.append(" " * (ind + 4) + 'parser.probe_rule("rec");')
                counts["rule"] += 1
            i = j
        elif in_rules and st == "loop {":
            pname = None
            for k in range(1, 4):
                if i + k < n:
                    m = re.match(r"\s*match (\w+)\.current \{", lines[i + k])
                    if m:
                        pname = m.group(1)
                        break
            if pname:
                out.pop()
                out.append(" " * ind + f"let __la{counts['loop']} = {pname}.probe_loop_enter({counts['loop']});")
                out.append(ln)
                out.append(" " * (ind + 4) + f"{pname}.probe_loop({counts['loop']}, __la{counts['loop']});")
                counts["loop"] += 1
        elif in_rules and st.endswith(".get_state(diags);") and st.startswith("let state = "):
            pname = st[len("let state = "):].split(".")[0]
            site += 1
            counts["sites"] += 1
            choice_stack.append([ind, pname, site, 0])
        elif choice_stack and st == "break 'ordered_choice;":
            c = choice_stack[-1]
            out.pop()
            out.append(" " * ind + f"{c[1]}.probe_alt({c[2]}, {c[3]});")
            out.append(ln)
            c[3] += 1
            counts["alt"] += 1
        elif choice_stack and st == f"{choice_stack[-1][1]}.in_ordered_choice = false;" and ind == choice_stack[-1][0]:
            # the last alternative follows: `if matches!(X.current, ..) {` possibly over several lines
            c = choice_stack[-1]
            j = i + 1
            while j < n and not lines[j].rstrip().endswith(") {"):
                out.append(lines[j])
                j += 1
            if j < n:
                out.append(lines[j])
                out.append(" " * (ind + 4) + f"{c[1]}.probe_alt({c[2]}, {c[3]});")
                counts["alt"] += 1
                c.append(j)
            i = j
        elif choice_stack and st == "} else {" and ind == choice_stack[-1][0]:
            c = choice_stack.pop()
            out.append(" " * (ind + 4) + f"{c[1]}.probe_alt({c[2]}, -1);")
        i += 1
    return "\n".join(out), counts


def choice_sites(text: str):
    """ordered-choice sites of an emitted parser: [(line of `let state`, [first lines of the attempts])]"""
    lines = text.split("\n")
    sites = []
    cur = None
    for i, ln in enumerate(lines):
        st = ln.strip()
        ind = len(ln) - len(ln.lstrip())
        if st.startswith("let state = ") and st.endswith(".get_state(diags);"):
            cur = [ind, i, []]
            sites.append(cur)
        elif cur is not None and ind == cur[0]:
            if st.startswith("if matches!("):
                cur[2].append(i)
            elif st.endswith(".in_ordered_choice = false;"):
                cur = None
        elif cur is not None and ind < cur[0] and st:
            cur = None
    return [(c[1], c[2]) for c in sites]


def disable_attempts(text: str, site: int, k: int):
    """the same parser with the first k attempts of one choice site switched off (`if false && matches!`):
    what the parser would do if only the later alternatives had ever been tried (C08 differential)"""
    lines = text.split("\n")
    sites = choice_sites(text)
    if site >= len(sites) or k > len(sites[site][1]):
        return None
    for i in sites[site][1][:k]:
        lines[i] = lines[i].replace("if matches!(", "if false && matches!(", 1)
    return "\n".join(lines)


# ---------------------------------------------------------------------------------------------
# module emission
# ---------------------------------------------------------------------------------------------

TRAIT_FN = re.compile(r"^\s*fn (create_node_|delete_node_|predicate_|action_|assertion_)(\w+)\(")


def callbacks_from_trait(gen: str):
    """reads the emitted ParserCallbacks trait and returns impl method texts (mechanically derived)"""
    idx = gen.find("pub trait ParserCallbacks<'a>")
    if idx < 0:
        return None
    methods = []
    for ln in gen[idx:].split("\n"):
        m = TRAIT_FN.match(ln)
        if not m:
            continue
        kind, nm = m.group(1), m.group(2)
        if kind == "predicate_" and nm == "skip":
            continue   # defaulted hook of the skeleton, not a grammar predicate
        if kind == "create_node_":
            methods.append(f'    fn create_node_{nm}(&mut self, node_ref: NodeRef, _diags: &mut Vec<Diag>) {{ self.mon_create("{nm}", node_ref) }}')
        elif kind == "delete_node_":
            methods.append(f'    fn delete_node_{nm}(&mut self, node_ref: NodeRef) {{ self.mon_delete("{nm}", node_ref) }}')
        elif kind == "predicate_":
            methods.append(f'    fn predicate_{nm}(&self) -> bool {{ self.mon_pred("{nm}") }}')
        elif kind == "action_":
            methods.append(f'    fn action_{nm}(&mut self, diags: &mut Vec<Diag>) {{ self.mon_action("{nm}", diags) }}')
        elif kind == "assertion_":
            methods.append(f'    fn assertion_{nm}(&self) -> Option<Diag> {{ self.mon_assert("{nm}") }}')
    return methods


def emit_module(src: Path, modname: str, u: Unit, gen_text: str, alias: bool):
    d = src / modname
    d.mkdir(parents=True, exist_ok=True)
    (d / "generated.rs").write_text(gen_text)
    toks = u.g.token_names
    eofs = ["EOF"] + ["EOF" + pascal(p) for p in u.g.parts]
    variants = eofs + toks + ["Error"]
    skipped = [t for t in u.g.skipped]
    lex = sorted(((lx, nm) for nm, lx in u.lex.items()), key=lambda x: -len(x[0]))
    methods = callbacks_from_trait(gen_text) or []
    disp = ['        "" => { parser.context.log.eof.set(Some(Token::EOF)); Some(parser.parse(diags)) }']
    for p in u.g.parts:
        disp.append(f'        "{p}" => {{ parser.context.log.eof.set(Some(Token::EOF{pascal(p)})); Some(parser.parse_{p}(diags)) }}')
    body = f"""// generated by the /verif harness for grammar {u.gid} (module {modname})
#![allow(clippy::all)]
#![allow(unused_variables, unused_mut, unreachable_patterns, non_camel_case_types, dead_code, unused_parens, unused_macros, unused_assignments, unused_labels)]

#[allow(clippy::upper_case_acronyms)]
#[derive(Debug, PartialEq, Eq, Hash, Copy, Clone)]
pub enum Token {{ {', '.join(variants)} }}

pub const SKIPPED: &[Token] = &[{', '.join('Token::' + t for t in skipped)}];
const LEX: &[(&str, Token)] = &[{', '.join('("%s", Token::%s)' % (lx.replace(chr(92), chr(92) * 2), nm) for lx, nm in lex)}];
{'type Diagnostic = Diag;' if alias else ''}

include!("generated.rs");
include!("../mon.rs");

pub fn lex(source: &str) -> (Vec<Token>, Vec<Span>) {{
    let mut toks = vec![];
    let mut spans = vec![];
    let mut p = 0usize;
    'outer: while p < source.len() {{
        for (lx, t) in LEX.iter() {{
            if source[p..].starts_with(lx) {{
                toks.push(*t);
                spans.push(p..p + lx.len());
                p += lx.len();
                continue 'outer;
            }}
        }}
        let c = source[p..].chars().next().unwrap();
        toks.push(Token::Error);
        spans.push(p..p + c.len_utf8());
        p += c.len_utf8();
    }}
    (toks, spans)
}}

impl<'a> ParserCallbacks<'a> for Parser<'a> {{
    type Diagnostic = Diag;
    type Context = Ctx;
    fn create_tokens(context: &mut Self::Context, source: &'a str, _diags: &mut Vec<Self::Diagnostic>) -> (Vec<Token>, Vec<Span>) {{
        let (t, s) = lex(source);
        *context.log.toks.borrow_mut() = t.clone();
        *context.log.spans.borrow_mut() = s.clone();
        (t, s)
    }}
    fn create_diagnostic(&self, span: Span, message: String) -> Self::Diagnostic {{ self.mon_diag(span, message) }}
{chr(10).join(methods)}
}}

pub fn dispatch<'a>(parser: Parser<'a>, entry: &str, diags: &mut Vec<Diag>) -> Option<Cst<'a>> {{
    match entry {{
{chr(10).join(disp)}
        _ => None,
    }}
}}
"""
    (d / "mod.rs").write_text(body)


class Arena:
    def __init__(self, root: Path, tag: str):
        self.dir = root / f"arena_{tag}"
        self.tag = tag
        self.mods = []     # (modname, unit, probed)
        self.bin = None
        self.build_log = ""

    def write(self, units, twin=True, alias=True):
        if self.dir.exists():
            shutil.rmtree(self.dir)
        src = self.dir / "src"
        src.mkdir(parents=True)
        (self.dir / "Cargo.toml").write_text((
            '[package]\nname = "arena"\nversion = "0.0.0"\nedition = "2024"\npublish = false\n\n'
            '[profile.dev]\nopt-level = %s\ndebug = 0\ndebug-assertions = true\noverflow-checks = true\nincremental = false\n\n'
            '[profile.release]\nopt-level = 2\ndebug = 0\nincremental = false\n\n[workspace]\n') % os.environ.get('VERIF_ARENA_OPT', '0'))
        shutil.copy(TMPL / "common.rs", src / "common.rs")
        shutil.copy(TMPL / "mon.rs", src / "mon.rs")
        self.mods = []
        for u in units:
            if not u.generated:
                continue
            emit_module(src, u.gid, u, u.generated, alias)
            self.mods.append((u.gid, u, False))
            if twin and getattr(u, "twin", True):
                probed, counts = insert_probes(u.generated)
                u.probe_counts = counts
                emit_module(src, u.gid + "p", u, probed, alias)
                self.mods.append((u.gid + "p", u, True))
                u.variants = []
                if getattr(u, "want_variants", False):
                    for si, (_, attempts) in enumerate(choice_sites(u.generated)):
                        for k in range(1, len(attempts) + 1):
                            vt = disable_attempts(u.generated, si, k)
                            if vt is not None:
                                tag = f"v{si}_{k}"
                                emit_module(src, u.gid + tag, u, vt, alias)
                                self.mods.append((u.gid + tag, u, tag))
                                u.variants.append((si, k, tag))
        self._write_main()

    def write_mixed(self, units, alias=True):
        """twin per unit (u.twin)"""
        self.write(units, twin=True, alias=alias)

    def _write_main(self):
        head = (TMPL / "main_head.rs").read_text()
        mods = "\n".join(f"mod {m};" for m, _, _ in self.mods)
        arms = "\n".join(f'        "{m}" => {m}::run_job(id, entry, seed, pm, am, src),' for m, _, _ in self.mods)
        run = ("\nfn run(module: &str, id: &str, entry: &str, seed: u64, pm: u8, am: u8, src: &str) -> String {\n"
               "    match module {\n" + arms + '\n        _ => format!("{{\\"id\\":\\"{id}\\",\\"error\\":\\"no module\\"}}"),\n    }\n}\n')
        (self.dir / "src" / "main.rs").write_text(head + "\n" + mods + "\n" + run)

    def build(self, profile="dev", max_rounds=6, asan=False):
        """cargo build; modules that do not compile are removed (and recorded) and the build retried"""
        env = dict(ENV)
        env["CARGO_TARGET_DIR"] = str(self.dir / "target")
        if asan:
            env["RUSTFLAGS"] = "-Zsanitizer=address -Cforce-frame-pointers=yes"
        failed = {}
        for rnd in range(max_rounds):
            args = ["cargo"] + (["+nightly"] if asan else []) + ["build", "--offline", "--message-format", "short"]
            if asan:
                args += ["--target", "x86_64-unknown-linux-gnu"]
            if profile == "release":
                args.append("--release")
            r = subprocess.run(args, cwd=str(self.dir), env=env, stdout=subprocess.PIPE, stderr=subprocess.STDOUT, text=True)
            self.build_log = r.stdout
            if r.returncode == 0:
                self.bin = self.dir / "target" / ("x86_64-unknown-linux-gnu" if asan else "") / ("release" if profile == "release" else "debug") / "arena"
                return failed
            bad = {}
            for ln in r.stdout.splitlines():
                m = re.match(r"src/(\w+)/(generated|mod)\.rs:(\d+):(\d+): error(\[E\d+\])?: (.*)", ln)
                if m:
                    bad.setdefault(m.group(1), []).append(f"{m.group(2)}.rs:{m.group(3)}: error{m.group(5) or ''}: {m.group(6)}")
            if not bad:
                raise Inconclusive("arena build failed outside grammar modules:\n" + "\n".join(r.stdout.splitlines()[-30:]))
            for m, errs in bad.items():
                failed[m] = errs
            # drop both twins of a failing grammar
            gids = {u.gid for m, u, _ in self.mods if m in bad}
            keep = []
            for m, u, p in self.mods:
                if u.gid in gids:
                    if u.compile_error is None:
                        u.compile_error = failed.get(u.gid) or failed.get(u.gid + "p") or next((failed[x] for x in failed if x.startswith(u.gid)), None)
                    shutil.rmtree(self.dir / "src" / m, ignore_errors=True)
                else:
                    keep.append((m, u, p))
            self.mods = keep
            self._write_main()
        raise Inconclusive("arena build did not converge")

    def run_miri(self, jobs, timeout=3000):
        """the same job protocol under the Miri interpreter (slow: a few hundred small jobs)"""
        env = dict(ENV)
        env["CARGO_TARGET_DIR"] = str(self.dir / "target-miri")
        env["MIRIFLAGS"] = "-Zmiri-disable-isolation"
        data = "".join(f"{j[0]}\t{j[1]}\t{j[2]}\t{j[3]}\t{j[4]}\t-\t{_esc(j[5])}\n" for j in jobs).encode()
        try:
            p = subprocess.run(["cargo", "+nightly", "miri", "run", "--offline", "--", "600000"], cwd=str(self.dir), env=env, input=data,
                               stdout=subprocess.PIPE, stderr=subprocess.PIPE, timeout=timeout)
        except subprocess.TimeoutExpired:
            return None, "timeout", ""
        results = {}
        for ln in p.stdout.decode(errors="replace").splitlines():
            if ln.startswith("{"):
                try:
                    rec = json.loads(ln)
                    if "id" in rec:
                        results[rec["id"]] = rec
                except json.JSONDecodeError:
                    pass
        return results, p.returncode, p.stderr.decode(errors="replace")

    def run(self, jobs, budget_ms=20000, mem_gb=6, asan_log=None, retry=True):
        """jobs: list of (id, module, entry, seed, 'pa' modes, source).  Returns (results by id, incidents)."""
        import resource
        results = {}
        incidents = []
        lines = [f"{j[0]}\t{j[1]}\t{j[2]}\t{j[3]}\t{j[4]}\t-\t{_esc(j[5])}\n" for j in jobs]
        start = 0

        def limits():
            if asan_log is None:       # AddressSanitizer reserves terabytes of address space
                resource.setrlimit(resource.RLIMIT_AS, (mem_gb << 30, mem_gb << 30))
        penv = dict(ENV)
        if asan_log is not None:
            penv["ASAN_OPTIONS"] = f"log_path={asan_log}:halt_on_error=1:abort_on_error=1:detect_leaks=0"

        while start < len(lines):
            p = subprocess.Popen([str(self.bin), str(budget_ms)], stdin=subprocess.PIPE, stdout=subprocess.PIPE,
                                 stderr=subprocess.DEVNULL, preexec_fn=limits, env=penv)
            data = "".join(lines[start:]).encode()
            try:
                out, _ = p.communicate(data, timeout=3600)
            except subprocess.TimeoutExpired:
                p.kill()
                out, _ = p.communicate()
            done = 0
            hang = False
            for ln in out.decode(errors="replace").splitlines():
                if not ln.startswith("{"):
                    continue
                try:
                    rec = json.loads(ln)
                except json.JSONDecodeError:
                    continue
                if "hang_seq" in rec:
                    hang = True
                    continue
                results[rec["id"]] = rec
                done += 1
            if start + done >= len(lines):
                break
            culprit = jobs[start + done]
            retried = None
            nretry = getattr(self, "_nretry", 0) if retry else 99
            if hang and nretry >= 3:
                hang_only = True       # enough budget spent on repeats in this arena
            if hang and nretry < 3:
                self._nretry = nretry + 1
                # a wall-clock expiry is no verdict: the job is repeated alone with ten times the budget
                p2 = subprocess.Popen([str(self.bin), str(budget_ms * 10)], stdin=subprocess.PIPE, stdout=subprocess.PIPE,
                                      stderr=subprocess.DEVNULL, preexec_fn=limits, env=penv)
                try:
                    out2, _ = p2.communicate(lines[start + done].encode(), timeout=3600)   # (the budget itself is CPU time)
                except subprocess.TimeoutExpired:
                    p2.kill()
                    out2, _ = p2.communicate()
                for ln in out2.decode(errors="replace").splitlines():
                    if ln.startswith("{") and "hang_seq" not in ln:
                        try:
                            retried = json.loads(ln)
                        except json.JSONDecodeError:
                            pass
            if retried is not None and "id" in retried:
                results[retried["id"]] = retried
            elif hang and nretry < 3 and p2.returncode not in (0, 9, None):
                # slow because it was busy overflowing the stack: the repeat shows the death
                incidents.append({"job": culprit, "kind": "died", "rc": p2.returncode})
            else:
                incidents.append({"job": culprit, "kind": "hang" if hang else "died", "rc": p.returncode})
            start = start + done + 1
        return results, incidents


def _esc(s: str) -> str:
    return s.replace("\\", "\\\\").replace("\n", "\\n").replace("\t", "\\t")
