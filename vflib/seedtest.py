"""Runs registered checks against a scratch worktree of /repo with one seeded change applied.
   python3 -m vflib.seedtest <dir with patch.diff> <ID> [<ID> ...] [--tier quick|thorough] [--seed N] [--keep]
Writes <dir>/detect.json (per check: exit code, VIOLATION / KNOWN-FINDING / INCONCLUSIVE lines, wall time)."""
import json
import os
import shutil
import subprocess
import sys
import time
from pathlib import Path

VERIF = Path(__file__).resolve().parent.parent


def main():
    a = sys.argv[1:]
    tier = "quick"
    sd = "1"
    keep = "--keep" in a
    if "--tier" in a:
        tier = a[a.index("--tier") + 1]
    if "--seed" in a:
        sd = a[a.index("--seed") + 1]
    pos = [x for i, x in enumerate(a) if not x.startswith("--") and (i == 0 or a[i - 1] not in ("--tier", "--seed"))]
    d = Path(pos[0]).resolve()
    ids = pos[1:]
    wt = Path("/tmp") / ("st_" + d.parent.name + "_" + d.name)
    subprocess.run(["git", "-C", "/repo", "worktree", "remove", "--force", str(wt)], stdout=subprocess.DEVNULL, stderr=subprocess.DEVNULL)
    r = subprocess.run(["git", "-C", "/repo", "worktree", "add", "--detach", str(wt), "HEAD"], stdout=subprocess.PIPE, stderr=subprocess.STDOUT, text=True)
    if r.returncode != 0:
        print(r.stdout)
        sys.exit(2)
    r = subprocess.run(["git", "-C", str(wt), "apply", str(d / "patch.diff")], stdout=subprocess.PIPE, stderr=subprocess.STDOUT, text=True)
    if r.returncode != 0:
        print("patch does not apply:", r.stdout)
        subprocess.run(["git", "-C", "/repo", "worktree", "remove", "--force", str(wt)])
        sys.exit(2)
    # ---- confirm the seeded change itself: test suite with the change, demonstration with and without it -------
    venv = dict(os.environ)
    venv.update({"CARGO_NET_OFFLINE": "true", "CARGO_TARGET_DIR": str(wt / "target"), "RUST_BACKTRACE": "0"})
    confirm = {}
    if "--no-confirm" not in a:
        t = time.time()
        r = subprocess.run(["cargo", "test", "--workspace", "--no-fail-fast", "--offline"], cwd=str(wt), env=venv, stdout=subprocess.PIPE, stderr=subprocess.STDOUT, text=True)
        import re as _re
        passed = sum(int(x) for x in _re.findall(r"test result: \w+\. (\d+) passed", r.stdout))
        failed = sum(int(x) for x in _re.findall(r"test result: \w+\. \d+ passed; (\d+) failed", r.stdout))
        confirm["tests_with_change"] = {"exit": r.returncode, "passed": passed, "failed": failed}
        demo = d / "demo.sh"
        if demo.exists():
            r1 = subprocess.run(["bash", str(demo), str(wt)], cwd=str(d), env=venv, stdout=subprocess.PIPE, stderr=subprocess.STDOUT, text=True)
            subprocess.run(["git", "-C", str(wt), "apply", "-R", str(d / "patch.diff")], check=True)
            r0 = subprocess.run(["bash", str(demo), str(wt)], cwd=str(d), env=venv, stdout=subprocess.PIPE, stderr=subprocess.STDOUT, text=True)
            subprocess.run(["git", "-C", str(wt), "apply", str(d / "patch.diff")], check=True)
            confirm["demo_with_change_exit"] = r1.returncode
            confirm["demo_without_change_exit"] = r0.returncode
            confirm["demo_with_change_tail"] = r1.stdout[-400:]
        confirm["wall_s"] = round(time.time() - t, 1)
        print("confirm:", {k: v for k, v in confirm.items() if k != "demo_with_change_tail"})
        # leave no build output of the demo behind in the seeded directory
        for junk in d.glob("**/target"):
            shutil.rmtree(junk, ignore_errors=True)
        shutil.rmtree(wt / "target", ignore_errors=True)
    # run from a snapshot of the machinery, so that edits made meanwhile do not change it (or its cache keys) mid-trial
    snap = Path("/tmp") / ("stsnap_" + d.parent.name + "_" + d.name)
    shutil.rmtree(snap, ignore_errors=True)
    snap.mkdir()
    for item in ("vf", "vflib", "rust", "known_findings.jsonl", "properties.jsonl"):
        src = VERIF / item
        if src.is_dir():
            shutil.copytree(src, snap / item, ignore=shutil.ignore_patterns("__pycache__", "target"))
        else:
            shutil.copy(src, snap / item)
    (VERIF / ".cache").mkdir(exist_ok=True)
    (VERIF / ".work").mkdir(exist_ok=True)
    os.symlink(VERIF / ".cache", snap / ".cache")
    os.symlink(VERIF / ".work", snap / ".work")
    env = dict(os.environ)
    env["VERIF_REPO"] = str(wt)
    env["VERIF_SEED"] = sd
    out = {"worktree_head": subprocess.run(["git", "-C", "/repo", "rev-parse", "--short", "HEAD"], stdout=subprocess.PIPE, text=True).stdout.strip(),
           "tier": tier, "seed": int(sd), "confirm": confirm, "checks": {}}
    for pid in ids:
        t = time.time()
        r = subprocess.run([str(snap / "vf"), "check", pid, "--tier", tier], cwd=str(snap), env=env, stdout=subprocess.PIPE, stderr=subprocess.PIPE, text=True)
        lines = r.stdout.splitlines()
        details = [l.strip() for l in r.stderr.splitlines() if "[signature=" in l][:8]
        out["checks"][pid] = {"exit": r.returncode, "wall_s": round(time.time() - t, 1),
                              "violations": [l for l in lines if l.startswith("VIOLATION")][:10],
                              "details": details,
                              "inconclusive": [l for l in lines if l.startswith("INCONCLUSIVE")][:3],
                              "last": lines[-1] if lines else ""}
        print(pid, "exit", r.returncode, f"{time.time() - t:.0f}s", (details[:2] or lines[-1:]))
    (d / "detect.json").write_text(json.dumps(out, indent=1))
    shutil.rmtree(snap, ignore_errors=True)
    if not keep:
        subprocess.run(["git", "-C", "/repo", "worktree", "remove", "--force", str(wt)])
        import hashlib
        alt = "alt_" + hashlib.sha1(str(wt).encode()).hexdigest()[:8]
        shutil.rmtree(VERIF / ".cache" / alt, ignore_errors=True)
        shutil.rmtree(VERIF / ".work" / alt, ignore_errors=True)


if __name__ == "__main__":
    main()
