"""The arena campaign shared by C01-C08, C11, C16: generate grammars, run the real `llw`, compile the
emitted parsers (pristine + probed twin), run the job files, evaluate the oracles.  The result is
cached under .cache keyed by (hash of /repo's sources, seed, tier), so that the ten checks that read
it cost one campaign, while any edit under /repo forces a new one."""
from __future__ import annotations
import hashlib
import json
import os
import random
import re
import time
from collections import Counter, defaultdict
from pathlib import Path
from .arena import Unit, Arena, run_llw
from .earley import Earley
from .gvalid import GValid, DEFAULT
from .interp import Interp, Unsupported, dump as idump
from .model import Grammar, Rule, N, render
from .refsets import RefSets, EPS, pascal
from .sample import Sampler, mutants, with_trivia
from .tools import CACHE, WORK, repo_hash, seed as get_seed, log, pmap, fresh_dir, rmtree, build_bins, Inconclusive
from . import buckets

VERSION = 13   # bump to invalidate cached campaigns when the machinery changes

PURE = dict(p_user_pred=0.0, p_assert=0.0)
SIZES = {
    "quick": dict(grammars=192, sentences=10, exhaustive_budget=0, long_runs=1),
    "thorough": dict(grammars=3200, sentences=30, exhaustive_budget=3000, long_runs=2),
}


CAMPAIGN_SOURCES = ["campaign.py", "arena.py", "buckets.py", "gvalid.py", "model.py", "refsets.py", "earley.py", "interp.py", "sample.py", "checks/c10.py"]


def machinery_hash():
    """hash of what determines a campaign's result (not of the whole harness: reporting code does not)"""
    h = hashlib.sha256()
    root = Path(__file__).resolve().parent
    for f in [root / x for x in CAMPAIGN_SOURCES] + sorted((root.parent / "rust" / "arena_tmpl").glob("*")):
        h.update(f.read_bytes())
    return h.hexdigest()[:10]


def cache_path(tier):
    return CACHE / f"campaign_{tier}_{get_seed()}_{repo_hash()}_{machinery_hash()}_v{VERSION}.json"


# ---------------------------------------------------------------------------------------------
# grammar population
# ---------------------------------------------------------------------------------------------

def has_kind(g: Grammar, kinds):
    for r in g.rules:
        if r.regex is not None:
            for n in r.regex.walk():
                if n.k in kinds:
                    return True
    return False


def user_dependent(g: Grammar):
    """grammar has user-defined predicates or assertions"""
    for r in g.rules:
        if r.regex is not None:
            for n in r.regex.walk():
                if n.k == "assert" or (n.k == "pred" and n.v != "t"):
                    return True
    return False


def population(shard, nshards, tier, sd):
    """units of one shard"""
    sz = SIZES[tier]
    rng = random.Random(sd * 9176 + shard * 31 + 7)
    n = sz["grammars"] // nshards
    units = []
    for i in range(n):
        mode = i % 4
        cfg = None
        if mode in (0, 1):
            cfg = dict(PURE)
            if mode == 1:
                cfg.update(p_choice=0.0, p_true_pred=0.0)          # eligible for C06 (backtracking-free)
            else:
                cfg.update(p_choice=0.6)
        gv = GValid(rng, cfg)
        g, meta = gv.grammar()
        if g is None:
            continue
        meta.pop("refsets", None)
        meta["profile"] = ["pure+choice", "pure", "full", "full"][mode]
        u = Unit(f"g{shard}_{i}", g, meta)
        u.twin = True
        units.append(u)
    # C07 population: Pratt grammars with expression inputs
    for i in range(max(2, n // 4)):
        g, meta = buckets.pratt_grammar(rng)
        u = Unit(f"q{shard}_{i}", g, meta)
        u.twin = True
        units.append(u)
    # interaction templates (randomized): conjunctions of features the random generator reaches rarely
    for i in range(2):
        g, meta = buckets.interaction_grammar(rng)
        u = Unit(f"i{shard}_{i}", g, meta)
        u.twin = True
        units.append(u)
    # labelled buckets for shapes that are known to trip a defect (each shard takes a slice)
    for bi, (name, g, inputs) in enumerate(buckets.known_shapes()):
        if bi % nshards == shard:
            u = Unit(f"b{shard}_{bi}", g, {"profile": "bucket", "bucket": name, "features": [], "inputs": inputs})
            u.twin = True
            units.append(u)
    # C11: rejected grammars (one injected semantic / syntax error each): nothing may be written
    accepted_like = [u for u in units if u.meta.get("profile") not in ("bucket",)]
    for j, (code, text) in enumerate(buckets.injected_errors(rng, [u.g for u in accepted_like[:6]])):
        g0 = accepted_like[j % max(1, min(6, len(accepted_like)))].g if accepted_like else None
        if g0 is None:
            break
        u = Unit(f"e{shard}_{j}", g0, {"profile": "rejected", "inject": code, "features": []})
        u.text = text
        u.twin = False
        units.append(u)
    for u in units:
        # C08 differential: code variants of the emitted parser with the first k attempts of a choice site disabled
        u.want_variants = u.meta.get("profile") != "bucket" and has_kind(u.g, ("choice",))
    return units


# ---------------------------------------------------------------------------------------------
# jobs
# ---------------------------------------------------------------------------------------------

def make_inputs(u: Unit, rng, tier):
    """list of (entry, kind, tokens-with-trivia, base tokens (trivia-free), base_key)"""
    sz = SIZES[tier]
    g = u.g
    if u.meta.get("bucket"):
        rng = random.Random(u.meta["bucket"])      # what a bucket shows must not depend on VERIF_SEED
        sz = SIZES["quick"]
    alphabet = [t for t in g.token_names if t not in set(g.skipped)]
    trivia = list(g.skipped) + ["Error"]
    s = Sampler(g)
    out = []
    if u.meta.get("inputs"):
        for entry, toks in u.meta["inputs"]:
            out.append((entry, "bucket", list(toks), [t for t in toks if t not in trivia], None))
    for entry in u.entries:
        rule = entry or g.start
        seen = set()

        def add(kind, toks, with_triv=True):
            key = (entry, tuple(toks))
            if key in seen:
                return
            seen.add(key)
            out.append((entry, kind, list(toks), list(toks), None))
            if with_triv and len(toks) <= 40:
                for mode in ("random", "every", "ends"):
                    if mode != "random" and rng.random() < 0.6:
                        continue
                    tv = with_trivia(rng, toks, trivia if g.skipped else ["Error"], mode)
                    if tv != toks:
                        out.append((entry, "trivia:" + kind, tv, list(toks), key))

        add("empty", [])
        if u.meta.get("exprs"):
            for e in u.meta["exprs"](rng, 30 if tier == "quick" else 120):
                add("expr", e, with_triv=False)
        nsent = sz["sentences"]
        for k in range(nsent):
            sent = s.sentence(rng, rule, depth=rng.choice([3, 5, 8, 12]), max_len=40)
            add("sentence", sent)
            if len(sent) <= 14:
                for p in range(len(sent)):
                    if rng.random() < (1.0 if len(sent) <= 8 else 0.5):
                        add("prefix", sent[:p], with_triv=rng.random() < 0.3)
            for m in mutants(rng, sent, alphabet, 3):
                add("mutant", m, with_triv=rng.random() < 0.5)
        for k in range(5):
            add("random", [rng.choice(alphabet) for _ in range(rng.choice([1, 2, 3, 5, 9]))])
        for t in rng.sample(alphabet, min(len(alphabet), sz["long_runs"])):
            add("run64", [t] * 64, with_triv=False)
            add("run4096", [t] * 4096, with_triv=False)
        if sz["exhaustive_budget"] and len(alphabet) <= 5:
            L = 1
            while len(alphabet) ** (L + 1) <= sz["exhaustive_budget"] and L < 6:
                L += 1
            import itertools
            for l in range(1, L + 1):
                for tup in itertools.product(alphabet, repeat=l):
                    add("exhaustive", list(tup), with_triv=False)
    return out


def make_jobs(units, rng, tier):
    jobs = []
    meta = {}
    inputs_of = {}
    for u in units:
        if not u.generated or u.compile_error:
            continue
        inputs_of[u.gid] = make_inputs(u, rng, tier)
    for u in units:
        if not u.generated or u.compile_error:
            continue
        ud = user_dependent(u.g)
        for ino, (entry, kind, toks, basetoks, pairkey) in enumerate(inputs_of[u.gid]):
            src = u.source_of(toks)
            modes = [("11", 1)] if not ud else [("00", 1), ("00", 2), ("11", 3), ("22", 4), ("12", 5)]
            if ud and (kind.startswith("run") or kind == "exhaustive"):
                modes = modes[:2]
            small = not (kind.startswith("run") or kind == "exhaustive")
            for (mode, sd) in modes:
                tags = [True, False] if getattr(u, "twin", True) else [False]     # probed twin first (see main_head.rs)
                if small and not (ud and mode == "00"):
                    tags += [t for _, _, t in getattr(u, "variants", [])]
                for tag in tags:
                    mod = u.gid + ("p" if tag is True else (tag or ""))
                    jid = f"{mod}|{ino}|{mode}{sd}"
                    # paired inputs (trivia variants, code variants) share the callback-outcome stream
                    hseed = int(hashlib.sha1(repr((entry, basetoks)).encode()).hexdigest()[:8], 16)
                    jobs.append((jid, mod, entry, sd * 7919 + hseed, mode, src))
                    meta[jid] = (u.gid, tag, ino, mode, sd)
    return jobs, meta, inputs_of


# ---------------------------------------------------------------------------------------------
# evaluation
# ---------------------------------------------------------------------------------------------

TOKEN_OR_PAREN = re.compile(r"\(|\)|[^\s()]+")


def strip_trivia(tree: str, trivia: set, drop_error_nodes=False):
    """removes skipped / Error tokens from an arena dump"""
    toks = TOKEN_OR_PAREN.findall(tree)
    out = []
    i = 0
    while i < len(toks):
        t = toks[i]
        if t == "(":
            out.append("(" + toks[i + 1])
            i += 2
            continue
        if t == ")":
            out.append(")")
        elif t not in trivia:
            out.append(t)
        i += 1
    s = " ".join(out).replace(" )", ")")
    return s


def offsets(u: Unit, toks):
    """byte spans of the tokens of an input"""
    sp = []
    p = 0
    for t in toks:
        lx = u.lex.get(t, "!") if t != "Error" else "!"
        n = len(lx.encode())
        sp.append((p, p + n))
        p += n
    return sp, p


class Verdicts:
    def __init__(self):
        self.viol = defaultdict(list)      # pid -> [ {sig, what, witness} ]
        self.counts = defaultdict(Counter)
        self.samples = defaultdict(list)
        self.nontrivial = defaultdict(set)
        self.evals = Counter()
        self.inconclusive = defaultdict(list)

    def v(self, pid, sig, what, witness):
        m = re.search(r"bucket=([\w-]+)", sig)
        if m:
            # a labelled bucket is one fixed grammar with fixed inputs: its signature is the bucket
            what = f"[{sig}] {what}"
            sig = "bucket=" + m.group(1)
        lst = self.viol[pid]
        if sum(1 for x in lst if x["sig"] == sig) < 3:
            lst.append({"sig": sig, "what": what, "witness": witness})
        self.counts[pid]["violations_seen:" + sig] += 1

    def to_json(self):
        return {
            "viol": {k: v for k, v in self.viol.items()},
            "counts": {k: dict(v) for k, v in self.counts.items()},
            "samples": {k: v[:4] for k, v in self.samples.items()},
            "nontrivial": {k: sorted(v)[:200000] for k, v in self.nontrivial.items()},
            "evals": dict(self.evals),
            "inconclusive": {k: v[:5] for k, v in self.inconclusive.items()},
        }


PROBLEM_SIG = [
    (r"C01 tree holds more tokens", "phantom-token"),
    (r"C01 token #\d+ in the tree is", "token-kind-mismatch"),
    (r"C01 token #\d+ has span", "token-span-mismatch"),
    (r"C01 walk visited", "token-count"),
    (r"C01 walking the tree .* panics", "walk-panics"),
    (r"C01 concatenated", "text-differs"),
    (r"C01 Display", "display-panics"),
    (r"C01 node \d+ is reached twice", "token-visited-twice"),
    (r"C02 node \d+ reachable twice", "node-reachable-twice"),
    (r"C02 child refs", "child-refs-not-increasing"),
    (r"C02 sibling extents overlap", "sibling-overlap"),
    (r"C02 child span .* not inside", "child-span-outside-parent"),
    (r"C02 child span .* starts before", "child-span-order"),
    (r"C02 span .* start > end", "span-inverted"),
    (r"C02 empty node", "empty-node-span"),
    (r"C02 rule node .* starts with skipped", "node-starts-with-trivia"),
    (r"C02 rule node .* ends with skipped", "node-ends-with-trivia"),
    (r"C02 create_node_\w+ announced", "callback-kind"),
    (r"C02 walking the subtree announced", "callback-walk-panics"),
    (r"C02 subtree announced", "callback-subtree-incomplete"),
    (r"C02 tree deeper", "tree-depth"),
    (r"C06 diagnostic span", "diag-span-outside"),
    (r"C08 tree after restore", "restore-tree"),
    (r"C08 position after restore", "restore-position"),
    (r"C08 diagnostics after restore", "restore-diagnostics"),
    (r"C08 restore without", "restore-without-snapshot"),
    (r"C08 active error state after restore", "restore-error-state"),
    (r"C08 action .* ran inside", "action-in-attempt"),
    (r"C08 error nodes", "created-deleted-error-balance"),
    (r"C08 `\w+` nodes", "created-deleted-balance"),
    (r"C16 peek_left", "peek-left"),
    (r"C16 peek", "peek"),
]


def classify_problem(p):
    for rx, name in PROBLEM_SIG:
        if re.match(rx, p):
            return p[:3], name
    return p[:3] if re.match(r"C\d\d", p) else "C03", "other:" + p[:40]


def grammar_shape(u: Unit):
    """coarse structural tag used in signatures (so that a known finding names a shape, not a seed)"""
    b = u.meta.get("bucket")
    if b:
        return "bucket=" + b
    return "main"


def evaluate(units, jobs, meta, inputs_of, results, incidents, tier):
    V = Verdicts()
    by_gid = {u.gid: u for u in units}
    # ---- C11: accepted => compiles; rejected => nothing written ---------------------------------
    for u in units:
        V.evals["C11"] += 1
        feats = u.meta.get("features", [])
        if len(feats) >= 3 or u.meta.get("profile") == "bucket":
            V.nontrivial["C11"].add(u.gid)
        wit = {"grammar": u.text, "llw_exit": u.llw_exit, "files": u.files}
        if u.llw_exit not in (0, 1):
            V.v("C11", f"llw-crash:{grammar_shape(u)}", f"llw exited with {u.llw_exit} (panic/abort) on an input grammar", dict(wit, stderr=u.llw_stderr[-600:]))
        elif u.llw_exit == 0:
            V.counts["C11"]["accepted"] += 1
            if u.meta.get("inject"):
                V.counts["C11"]["injection_still_accepted_" + u.meta["inject"]] += 1
            if "parser.gv" in u.files:
                V.counts["C11"]["graphs_written"] += 1
            else:
                V.v("C11", "accepted-no-graph", "llw -g exit 0 but no parser.gv", wit)
            if u.meta.get("inject_accepted"):
                pass
            elif u.generated is None:
                V.v("C11", "accepted-no-output", "llw exit 0 but no generated.rs", wit)
            elif u.compile_error:
                first = u.compile_error[0]
                kind = re.sub(r"`[^`]*`", "`_`", first.split(": ", 1)[-1])[:70]
                V.v("C11", f"not-compilable:{grammar_shape(u)}:{kind}", f"accepted grammar, emitted parser does not compile: {first}", dict(wit, errors=u.compile_error[:4]))
            else:
                V.counts["C11"]["accepted_and_compiled"] += 1
        else:
            V.counts["C11"]["rejected"] += 1
            if u.meta.get("inject"):
                V.counts["C11"]["rejected_by_injected_" + u.meta["inject"]] += 1
                V.nontrivial["C11"].add(u.gid)
            extra = [f for f in u.files if f != "g.llw"]
            if extra:
                V.v("C11", "rejected-but-wrote", f"llw reported an error (exit 1) but wrote {extra}", wit)
            # a grammar our references find conflict-free is expected to be accepted: hand to C10
            if u.meta.get("profile") not in ("bucket", "rejected") and re.search(r"error\[E01[1-4]\]", u.llw_stderr):
                V.v("C10", "rejected-conflict-free", "grammar without a conflict by R-conf was rejected with an LL(1) conflict", dict(wit, stderr=u.llw_stderr[-800:]))
    # ---- incidents (hang / death) -----------------------------------------------------------------
    for inc in incidents:
        jid = inc["job"][0]
        gid, probed, ino, mode, sd = meta[jid]
        u = by_gid[gid]
        entry, kind, toks, basetoks, _ = inputs_of[u.gid][ino]
        wit = {"grammar": u.text, "entry": entry, "tokens": toks[:5000], "ntokens": len(toks), "source": inc["job"][5][:300], "modes": mode, "seed": sd, "twin": twin_name(probed)}
        if inc["kind"] == "died":
            V.v("C03", f"process-died:{grammar_shape(u)}:rc{inc['rc']}", f"arena process died (rc {inc['rc']}: stack overflow / abort / memory limit) while parsing", wit)
        else:
            V.inconclusive["C03"].append({"reason": "watchdog expired without a logical verdict", "witness": wit})
            V.counts["C03"]["watchdog_expiries"] += 1
    # ---- per grammar oracles ----------------------------------------------------------------------
    res_by = defaultdict(dict)    # gid -> (probed, ino, mode, sd) -> record
    for jid, rec in results.items():
        gid, probed, ino, mode, sd = meta[jid]
        res_by[gid][(probed, ino, mode, sd)] = rec
    for u in units:
        if u.gid not in res_by or u.gid not in inputs_of:
            continue
        evaluate_unit(u, u, inputs_of[u.gid], res_by, by_gid, V, tier)
    return V


def twin_name(tag):
    return "probed" if tag is True else ("pristine" if not tag else "variant " + tag)


def first_tok_index(spans, start):
    for i, (a, b) in enumerate(spans):
        if a == start:
            return i
    return None


def evaluate_unit(u, base, inputs, res_by, by_gid, V, tier):
    g = u.g
    trivia = set(g.skipped) | {"Error"}
    R = res_by[u.gid]
    shape = grammar_shape(u)
    ud = user_dependent(g)
    has_choice = has_kind(g, ("choice",))
    has_tpred = any(n.k == "pred" and n.v == "t" for r in g.rules if r.regex is not None for n in r.regex.walk())
    bucket = u.meta.get("profile") == "bucket"
    rs = RefSets(g)
    ear = Earley(rs)
    itp = Interp(g, rs)
    feats = set(u.meta.get("features", []))
    for (probed, ino, mode, sd), rec in R.items():
        entry, kind, toks, basetoks, pairkey = inputs[ino]
        wit = lambda extra=None: dict({"grammar": u.text, "entry": entry, "tokens": toks[:5000], "ntokens": len(toks),
                                       "source": u.source_of(toks)[:400], "modes": mode, "seed": sd,
                                       "twin": twin_name(probed), "input_kind": kind}, **(extra or {}))
        key = f"{u.gid}|{ino}|{mode}{sd}"
        if isinstance(probed, str):
            continue      # code variants are only read by the C08 differential below
        if rec.get("skipped"):
            V.counts["C03"]["twin_runs_skipped_after_proven_non_termination"] += 1
            continue
        # ---------------- C03: totality ---------------------------------------------------------
        if not probed:
            V.evals["C03"] += 1
        if rec.get("panic") is not None:
            msg = rec["panic"]
            if msg.startswith("VERIF-LIVELOCK"):
                V.v("C03", f"livelock:{shape}", "generated parser spins: " + msg, wit())
            elif msg.startswith("VERIF-RECURSION"):
                V.v("C03", f"recursion:{shape}", "generated parser recurses without consuming: " + msg, wit())
            else:
                loc = rec.get("loc", "")
                where = "generated" if "generated" in loc else ("monitor" if "mon.rs" in loc else loc)
                V.v("C03", f"panic:{shape}:{where}:{re.sub(r'[0-9]+', 'N', msg)[:60]}", f"generated parser panics: {msg[:120]} at {loc}", wit())
            continue
        if rec.get("error"):
            V.inconclusive["C03"].append({"reason": "arena: " + rec["error"], "witness": wit()})
            continue
        st = rec["st"]
        n_err_nodes, n_empty, n_created, n_deleted, n_snap, n_restore = st[1], st[2], st[3], st[4], st[5], st[6]
        has_triv = any(t in trivia for t in toks)
        # ---------------- online problems: C01 C02 C06(span) C08 C16 ------------------------------
        for p in rec.get("problems", []):
            pid, cat = classify_problem(p)
            V.v(pid, f"{cat}:{shape}", p, wit())
        if not probed:
            for pid in ("C01", "C02"):
                V.evals[pid] += 1
            if has_triv and (n_err_nodes or n_restore or "marker" in feats or "whole_create" in feats or "pratt" in feats):
                V.nontrivial["C01"].add(key)
            if n_err_nodes or n_empty or "marker" in feats or "whole_create" in feats or "pratt" in feats:
                V.nontrivial["C02"].add(key)
            if n_err_nodes or kind in ("prefix", "empty", "run64", "run4096"):
                V.nontrivial["C03"].add(key)
            V.counts["C03"]["error_nodes"] += n_err_nodes
            V.counts["C02"]["empty_nodes"] += n_empty
            V.counts["C02"]["create_callbacks"] += n_created
            V.counts["C01"]["tokens_walked"] += rec.get("n", 0)
            if kind.startswith("run4096"):
                V.counts["C03"]["runs_of_4096_tokens"] += 1
        # ---------------- twin agreement ------------------------------------------------------------
        if probed is True:
            other = R.get((False, ino, mode, sd))
            if other is not None and other.get("panic") is None and not other.get("error") and not other.get("skipped"):
                if other.get("tree") != rec.get("tree") or other.get("diags") != rec.get("diags") or other.get("ev") != rec.get("ev"):
                    V.inconclusive["C08"].append({"reason": "probed twin disagrees with pristine twin", "witness": wit()})
                    V.counts["C08"]["twin_disagreements"] += 1
                else:
                    V.counts["C08"]["twin_agreements"] += 1
            V.counts["C08"]["snapshots"] += n_snap
            V.counts["C08"]["restores"] += n_restore
            V.counts["C08"]["deletes"] += n_deleted
            V.counts["C08"]["restores_with_error_flag_difference"] += st[7]
            V.counts["C03"]["loop_iterations_observed"] += st[8]
            V.counts["C03"]["rule_entries_observed"] += st[9]
            V.counts["C16"]["predicate_calls_checked"] += st[10]
            V.evals["C08"] += 1
            if n_restore:
                V.nontrivial["C08"].add(key)
            if st[10]:
                V.evals["C16"] += 0
            continue
        # ================= pristine only below =======================================================
        diags = rec["diags"]
        nodiag = len(diags) == 0
        big = len(toks) > 300
        eof = "EOF" if entry == "" else "EOF" + pascal(entry)
        rule = entry or g.start
        spans, total = offsets(u, toks)
        base_spans = [sp for t, sp in zip(toks, spans) if t not in trivia]
        # ---------------- C06 (generic part): order / range of diagnostics ------------------------
        syn = [d for d in diags if d[2] == 0]
        V.evals["C06"] += 1
        if syn:
            V.nontrivial["C06"].add(key)
            V.counts["C06"]["muted_mismatches"] += max(0, rec.get("made", 0) - len(syn))
        for a, b in zip(syn, syn[1:]):
            if has_choice or ud or has_tpred:
                break       # C06 speaks about grammars without predicates, assertions and ordered choice
            if not (b[0] > a[0]) and b[0] >= 0:
                V.v("C06", f"not-increasing:{shape}", f"syntax diagnostics not strictly increasing: {a[:2]} then {b[:2]}", wit({"diags": diags[:8]}))
                break
        if big or ud:
            pass
        # ---------------- C04 / C05 / C06(first error) on model-checkable inputs --------------------
        if not big and not ud and not bucket and len(basetoks) <= 16:
            member = None
            err_index = None
            try:
                if has_choice or has_tpred:
                    r_i = itp.run(rule, basetoks, eof)
                    member = r_i["accept"]
                    em, _ = ear.recognize(rule, basetoks)
                    if member and not em:
                        V.inconclusive["C04"].append({"reason": "oracle self-check: R-interp accepts, R-earley rejects", "witness": wit()})
                        member = None
                    V.counts["C04"]["decided_by_interp"] += 1
                else:
                    member, err_index = ear.recognize(rule, basetoks)
                    r_i = itp.run(rule, basetoks, eof)
                    if r_i["accept"] != member:
                        V.inconclusive["C04"].append({"reason": f"oracle self-check: R-interp {r_i['accept']} vs R-earley {member}", "witness": wit()})
                        member = None
                    V.counts["C04"]["decided_by_earley"] += 1
            except Unsupported as e:
                V.counts["C04"]["interp_unsupported:" + str(e)] += 1
                r_i = None
                if not (has_choice or has_tpred):
                    member, err_index = ear.recognize(rule, basetoks)
            if member is not None:
                V.evals["C04"] += 1
                if member:
                    V.counts["C04"]["sentences"] += 1
                    if kind in ("mutant", "trivia:mutant"):
                        V.counts["C04"]["mutants_that_stayed_sentences"] += 1
                    if len(basetoks) >= 2:
                        V.nontrivial["C04"].add(key)
                else:
                    V.counts["C04"]["non_sentences"] += 1
                    if kind in ("mutant", "prefix", "trivia:mutant", "trivia:prefix"):
                        V.nontrivial["C04"].add(key)
                if member and not nodiag:
                    V.v("C04", f"valid-input-diagnosed:{shape}:{'choice' if has_choice else 'plain'}", f"sentence draws a diagnostic: {rec.get('msg0', '')[:80]}", wit({"diags": diags[:5], "tree": rec["tree"][:300]}))
                if not member and nodiag:
                    V.v("C04", f"invalid-input-accepted:{shape}:{'choice' if has_choice else 'plain'}", "non-sentence accepted without any diagnostic", wit({"tree": rec["tree"][:300]}))
                # C05: tree of a sentence
                if member and r_i and r_i.get("accept") and nodiag and not has_kind(g, ()):  # rules with empty body never generated
                    V.evals["C05"] += 1
                    want = idump(r_i["tree"])
                    got = strip_trivia(rec["tree"], trivia)
                    if any(n.k in ("rename", "elide", "create") for r in g.rules if r.regex is not None for n in r.regex.walk()) or any(r.elided for r in g.rules):
                        V.nontrivial["C05"].add(key)
                    if got != want:
                        V.v("C05", f"tree-differs:{shape}", "tree of a sentence differs from the derivation tree with node operators applied", wit({"got": got[:500], "want": want[:500]}))
                    acts = [e.split("@")[0][2:] for e in rec["ev"].split() if e.startswith("A:")]
                    if acts != r_i["actions"]:
                        V.v("C05", f"actions-differ:{shape}", f"semantic actions fired {acts[:12]}, derivation order is {r_i['actions'][:12]}", wit())
                    V.counts["C05"]["actions_compared"] += len(acts)
                # C06: first error position (backtracking-free grammars)
                if not member and err_index is not None and not has_choice and not has_tpred and syn:
                    V.evals["C06"] += 0
                    want_span = list(base_spans[err_index]) if err_index < len(base_spans) else [total, total]
                    V.counts["C06"]["first_error_positions_compared"] += 1
                    if list(syn[0][:2]) != want_span:
                        V.v("C06", f"first-error-position:{shape}", f"first syntax diagnostic at {syn[0][:2]}, first offending token is #{err_index} at {want_span}", wit({"diags": diags[:5], "want_span": want_span}))
        # ---------------- C16: trivia transparency ---------------------------------------------------
        if pairkey is not None and not big:
            # find the base job (same entry, trivia-free tokens)
            bi = None
            for j, inp in enumerate(inputs):
                if inp[0] == entry and inp[2] == basetoks and inp[4] is None and inp[1] != "bucket":
                    bi = j
                    break
            other = R.get((False, bi, mode, sd)) if bi is not None else None
            if other is not None and other.get("panic") is None and not other.get("error") and not other.get("skipped"):
                V.evals["C16"] += 1
                interior = any(t in trivia for t in toks[1:-1])
                if interior:
                    V.nontrivial["C16"].add(key)
                t1 = strip_trivia(rec["tree"], trivia)
                t0 = strip_trivia(other["tree"], trivia)
                if t1 != t0:
                    V.v("C16", f"tree-changes-with-trivia:{shape}", "inserting skipped/Error tokens changed the tree", wit({"with_trivia": t1[:400], "without": t0[:400]}))
                # diagnostics: same (token index | eof, kind) sequence
                bsp0, tot0 = offsets(u, basetoks)

                def norm(ds, sps, tot):
                    out = []
                    for a, b, k in ds:
                        if a == tot and b == tot:
                            out.append(("eof", k))
                        else:
                            out.append((first_tok_index(sps, a), k))
                    return out
                d1 = norm(diags, base_spans, total)
                d0 = norm(other["diags"], bsp0, tot0)
                if d1 != d0:
                    V.v("C16", f"diagnostics-change-with-trivia:{shape}", f"inserting skipped/Error tokens changed the diagnostics: {d1[:6]} vs {d0[:6]}", wit())
        # ---------------- C07: operator expressions ---------------------------------------------------
        if kind == "expr" and u.meta.get("prec") and nodiag:
            V.evals["C07"] += 1
            want = u.meta["prec"](basetoks)
            got = strip_trivia(rec["tree"], trivia)
            if want is not None:
                if sum(1 for t in basetoks if t in u.meta["ops"]) >= 2:
                    V.nontrivial["C07"].add(key)
                if got != want:
                    V.v("C07", f"grouping:{u.meta.get('prec_shape', 'pratt')}", f"operator expression groups differently from the declared precedence/associativity", wit({"got": got[:400], "want": want[:400]}))
        elif kind == "expr" and u.meta.get("prec") and not nodiag:
            V.v("C07", f"expression-rejected:{u.meta.get('prec_shape', 'pratt')}", "operator expression (a sentence) draws a diagnostic", wit({"diags": diags[:4]}))
        # ---------------- C08 differential: the same parser with the abandoned attempts switched off ---------
        if has_choice and not big and not (ud and mode == "00") and getattr(u, "variants", None):
            prec = R.get((True, ino, mode, sd))
            if prec is not None and prec.get("alts") is not None and prec.get("panic") is None:
                taken = defaultdict(set)
                for a in prec["alts"].split():
                    s_, k_ = a.split(":")
                    taken[int(s_)].add(int(k_))
                nalt = defaultdict(int)
                for si, k, tag in u.variants:
                    nalt[si] = max(nalt[si], k)
                for si, ks in taken.items():
                    if len(ks) != 1:
                        continue
                    k = next(iter(ks))
                    if k == -1:
                        k = nalt[si]       # nothing predicted: same path as going straight to the last alternative
                    if k == 0:
                        continue
                    vr = R.get((f"v{si}_{k}", ino, mode, sd))
                    if vr is None or vr.get("error") or vr.get("skipped"):
                        continue
                    V.counts["C08"]["differential_comparisons"] += 1
                    if vr.get("panic") is not None:
                        V.v("C08", f"variant-panics:{shape}", f"with the abandoned attempts of choice site {si} switched off the parser panics: {vr['panic'][:80]}", wit())
                        continue
                    if n_restore or rec["st"][6]:
                        pass
                    acts = lambda r: [e for e in r.get("ev", "").split() if e.startswith("A:")]
                    if vr["tree"] != rec["tree"] or vr["diags"] != diags or acts(vr) != acts(rec):
                        V.v("C08", f"differs-from-chosen-alternative:{shape}", f"choice site {si} finally took alternative {k}; the same parser with the earlier attempts switched off gives a different tree / diagnostics / action sequence", wit({"choice_tree": rec["tree"][:400], "direct_tree": vr["tree"][:400], "choice_diags": diags[:5], "direct_diags": vr["diags"][:5], "choice_ev": rec.get("ev", "")[:200], "direct_ev": vr.get("ev", "")[:200]}))
    # samples
    if len(V.samples["arena"]) < 3:
        V.samples["arena"].append({"grammar": u.text, "features": u.meta.get("features"), "inputs": [" ".join(i[2][:20]) for i in inputs[:4]]})


# ---------------------------------------------------------------------------------------------
# driver
# ---------------------------------------------------------------------------------------------

def _worker(args):
    shard, nshards, tier, sd, root = args
    t0 = time.time()
    rng = random.Random(sd * 52361 + shard)
    units = population(shard, nshards, tier, sd)
    run_llw(units, Path(root) / f"w{shard}", jobs=2)
    for u in units:
        if u.meta.get("inject") and u.generated:
            u.meta["inject_accepted"] = True       # the model behind it lacks the injected names: keep it out of the arena
            u.generated = None
    gen_units = [u for u in units if u.generated]
    # one crate per <= 20 grammars: rustc's memory grows with the crate (a 200-grammar crate needs ~7 GB, times 16 shards)
    jobs, meta, inputs_of, results, incidents = [], {}, {}, {}, []
    tb = tr = 0.0
    for ci in range(0, max(1, len(gen_units)), 20):
        chunk = gen_units[ci:ci + 20]
        if not chunk:
            break
        ta = time.time()
        arena = Arena(Path(root), f"{shard}_{ci // 20}")
        arena.write_mixed(chunk)
        arena.build("dev")
        tb += time.time() - ta
        ta = time.time()
        j, m, io = make_jobs(chunk, rng, tier)
        r, inc = arena.run(j)
        tr += time.time() - ta
        jobs += j
        meta.update(m)
        inputs_of.update(io)
        results.update(r)
        incidents += inc
        rmtree(arena.dir)
    t1 = t0 + tb
    t2 = t1 + tr
    V = evaluate(units, jobs, meta, inputs_of, results, incidents, tier)
    V.counts["arena"]["grammars"] += len(units)
    V.counts["arena"]["code_variants"] += sum(len(getattr(u, "variants", [])) for u in units)
    V.counts["arena"]["jobs"] += len(jobs)
    V.counts["arena"]["results"] += len(results)
    V.counts["arena"]["build_s"] += int(tb)
    V.counts["arena"]["run_s"] += int(tr)
    for u in units:
        if True:
            for f in u.meta.get("features", []):
                V.counts["features"][f] += 1
            V.counts["profiles"][u.meta.get("profile", "?")] += 1
            pc = u.probe_counts
            if pc and has_kind(u.g, ("choice",)) and not pc.get("alt"):
                V.inconclusive["C08"].append({"reason": "P-alt anchors not found in emitted parser", "witness": {"grammar": u.text}})
    rmtree(Path(root) / f"w{shard}")
    return V.to_json()


def run(tier):
    """returns the merged campaign result (from cache if /repo, seed, tier and machinery are unchanged)"""
    cp = cache_path(tier)
    if cp.exists():
        log(f"[campaign] using cached result {cp.name}")
        return json.loads(cp.read_text())
    build_bins("release")
    sd = get_seed()
    root = fresh_dir(f"camp_{tier}_{sd}")
    nshards = 16
    t = time.time()
    parts = pmap(_worker, [(s, nshards, tier, sd, str(root)) for s in range(nshards)], nshards)
    merged = {"viol": defaultdict(list), "counts": defaultdict(Counter), "samples": defaultdict(list),
              "nontrivial": defaultdict(int), "evals": Counter(), "inconclusive": defaultdict(list)}
    for p in parts:
        for k, v in p["viol"].items():
            merged["viol"][k].extend(v)
        for k, v in p["counts"].items():
            merged["counts"][k].update(v)
        for k, v in p["samples"].items():
            merged["samples"][k].extend(v)
        for k, v in p["nontrivial"].items():
            merged["nontrivial"][k] += len(v)
        merged["evals"].update(p["evals"])
        for k, v in p["inconclusive"].items():
            merged["inconclusive"][k].extend(v)
    out = {"viol": dict(merged["viol"]), "counts": {k: dict(v) for k, v in merged["counts"].items()},
           "samples": dict(merged["samples"]), "nontrivial": dict(merged["nontrivial"]), "evals": dict(merged["evals"]),
           "inconclusive": dict(merged["inconclusive"]), "wall_s": round(time.time() - t, 1), "tier": tier, "seed": sd}
    rmtree(root)
    CACHE.mkdir(exist_ok=True)
    for old in CACHE.glob(f"campaign_{tier}_*.json"):
        old.unlink()
    cp.write_text(json.dumps(out))
    log(f"[campaign] {tier}: {out['counts'].get('arena', {})} in {out['wall_s']}s")
    return out
