"""R-interp: value-semantics reference interpreter of the *documented* reading of a lelwel grammar.

Decisions use R-sets' PREDICT / FIRST / FOLLOW (never lelwel's tables); `?t` means priority; an
ordered choice tries its alternatives in order, an attempt fails at its first mismatch before `~`,
the last alternative runs in the outer mode.  Returns acceptance, the expected tree with node
operators applied, the ordered action list and, per dynamic choice instance, the alternative taken.
No error recovery: the first mismatch rejects.
"""
from __future__ import annotations
from .model import Grammar, N
from .refsets import RefSets, EPS
from .checks.c10 import pratt_info, SEM


class Reject(Exception):
    def __init__(self, pos, why=""):
        self.pos = pos
        self.why = why


class Fail(Exception):
    """mismatch inside an ordered-choice attempt (before commit)"""


class Unsupported(Exception):
    pass


class Interp:
    def __init__(self, g: Grammar, rs: RefSets):
        self.g = g
        self.rs = rs
        self.rules = {r.name: r for r in g.rules}
        self.sym2name = g.sym_to_name()
        self.right = set(g.right)
        self.pratt = {}
        for r in g.rules:
            pi = pratt_info(r)
            if pi:
                self.pratt[r.name] = self._pratt_table(r, pi)

    # ---- public ------------------------------------------------------------------------------
    def run(self, entry: str, toks, eof: str, max_steps=200000):
        self.toks = list(toks)
        self.eof = eof
        self.pos = 0
        self.actions = []
        self.alts = []
        self.try_mode = False
        self.steps = 0
        self.max_steps = max_steps
        self.depth = 0
        try:
            items = self._rule(entry, top=True)
            if self.pos != len(self.toks):
                raise Reject(self.pos, "trailing input")
        except Reject as e:
            return {"accept": False, "pos": e.pos, "why": e.why}
        if entry == self.g.start:
            tree = (entry, items)
        else:
            tree = ("part", items)
        return {"accept": True, "tree": tree, "actions": list(self.actions), "alts": list(self.alts)}

    # ---- helpers ------------------------------------------------------------------------------
    @property
    def cur(self):
        return self.toks[self.pos] if self.pos < len(self.toks) else self.eof

    def _mismatch(self, why=""):
        if self.try_mode:
            raise Fail()
        raise Reject(self.pos, why)

    def _tok_of(self, n: N):
        if n.k == "sym":
            return self.sym2name.get(n.v)
        return n.v

    def _guarded_user(self, n):
        while n.k == "paren" and n.ops:
            n = n.ops[0]
        if n.k == "concat" and n.ops and n.ops[0].k == "pred":
            return n.ops[0].v != "t"
        return False

    # ---- rule application ----------------------------------------------------------------------
    def _rule(self, name, top=False):
        """returns the list of items the application contributes to its parent"""
        self.depth += 1
        if self.depth > 400:
            raise Unsupported("recursion depth")
        try:
            r = self.rules[name]
            if name in self.pratt:
                return self._pratt_rule(name, 0)
            fr = Frame(name, r.elided)
            if r.regex is not None:
                self._regex(r.regex, fr)
            if top and name == self.g.start:
                return fr.items          # the root node is made by the caller
            if fr.elide:
                return fr.items
            return [(fr.kind, fr.items)]
        finally:
            self.depth -= 1

    def _regex(self, n: N, fr):
        self.steps += 1
        if self.steps > self.max_steps:
            raise Unsupported("step limit")
        k = n.k
        rs = self.rs
        if k in ("name", "sym"):
            if k == "name" and n.v[:1].islower():
                fr.items.extend(self._rule(n.v))
            else:
                t = self._tok_of(n)
                if self.cur == t:
                    fr.items.append(t)
                    self.pos += 1
                else:
                    self._mismatch(f"expected {t}")
        elif k == "concat":
            for o in n.ops:
                self._regex(o, fr)
        elif k == "paren":
            if n.ops:
                self._regex(n.ops[0], fr)
        elif k == "alt":
            for b in n.ops:
                if self._guarded_user(b):
                    raise Unsupported("user predicate")
                if self.cur in rs.predict(b, conv=True):
                    self._regex(b, fr)
                    return
            self._mismatch("no alternative")
        elif k in ("star", "plus", "opt"):
            body = n.ops[0]
            if self._guarded_user(body):
                raise Unsupported("user predicate")
            if k == "plus":
                self._regex(body, fr)
            first = rs.first(body) - {EPS}
            follow = rs.follow(n, conv=True)
            while True:
                if self.cur in first:
                    self._regex(body, fr)
                    if k == "opt":
                        break
                    continue
                if self.cur in follow:
                    break
                self._mismatch("loop/option: neither body nor follow")
        elif k == "choice":
            self._choice(n, fr)
        elif k == "pred":
            pass
        elif k == "action":
            if self.try_mode:
                raise Unsupported("action in attempt")
            self.actions.append(f"{fr.rule}_{n.v}")
        elif k == "assert":
            raise Unsupported("assertion")
        elif k == "rename":
            fr.kind = n.v
        elif k == "elide":
            fr.elide = True
        elif k == "marker":
            fr.marks[n.v] = len(fr.items)
        elif k == "create":
            num, nm = n.v
            at = 0 if num is None else fr.marks[num]
            node = (nm or fr.rule, fr.items[at:])
            del fr.items[at:]
            fr.items.append(node)
            # with properly nested pairs every mark > at belongs to a pair that is already closed
        elif k == "commit":
            self.try_mode = False
        elif k == "return":
            pass
        else:
            raise Unsupported(k)

    def _choice(self, n: N, fr):
        rs = self.rs
        site = id(n)
        outer = self.try_mode
        if outer:
            raise Unsupported("nested choice")
        for i, a in enumerate(n.ops):
            last = i == len(n.ops) - 1
            if self.cur not in rs.predict(a, conv=True):
                if last:
                    self._mismatch("choice: last alternative not predicted")
                continue
            if last:
                self.alts.append((site, i))
                self._regex(a, fr)
                return
            save = (self.pos, list(fr.items), fr.kind, fr.elide, dict(fr.marks), len(self.actions), len(self.alts))
            self.try_mode = True
            try:
                self._regex(a, fr)
                self.try_mode = False
                self.alts.append((site, i))
                return
            except Fail:
                self.try_mode = False
                self.pos, items, fr.kind, fr.elide, marks, na, nalts = save
                fr.items[:] = items
                fr.marks = marks
                del self.actions[na:]
                del self.alts[nalts:]

    # ---- Pratt rules -------------------------------------------------------------------------
    def _pratt_table(self, r, pi):
        """levels from branch order (earlier = tighter); associativity from the `right` declaration"""
        rec = []
        for b in r.regex.ops:
            if b.k != "concat":
                continue
            eff = [(i, o) for i, o in enumerate(b.ops) if o.k not in SEM]
            if not eff:
                continue
            is_self = lambda o: o.k == "name" and o.v == r.name
            l = is_self(eff[0][1])
            rr = len(eff) > 1 and is_self(eff[-1][1])
            if l or rr:
                rec.append((b, l, rr, eff))
        nrec = len(rec)
        table = {"left": [], "atoms": [], "level": {}}
        for idx, (b, l, rr, eff) in enumerate(rec):
            level = nrec - idx          # higher binds tighter
            right_assoc = False
            if l and rr:
                op = eff[1][1]
                optoks = self.rs.first(op) - {EPS}
                right_assoc = bool(optoks) and optoks <= self.right
            table["level"][id(b)] = (level, right_assoc, l, rr, eff)
            if l:
                table["left"].append(b)
        for b in r.regex.ops:
            info = table["level"].get(id(b))
            if info is None or not info[2]:
                table["atoms"].append(b)
        return table

    def _pratt_rule(self, name, min_level, min_strict=False):
        """precedence climbing: parses an operand then left-recursive branches whose level is allowed"""
        t = self.pratt[name]
        rs = self.rs
        # operand: non-left-recursive branches in order
        lhs = None
        for b in t["atoms"]:
            if self._guarded_user(b):
                raise Unsupported("user predicate")
            if self.cur in rs.predict(b, conv=True):
                fr = Frame(name, False)
                info = t["level"].get(id(b))
                if info is not None and info[3]:   # prefix branch: trailing self reference gets the branch's level
                    level, _, _, _, eff = info
                    last_i = eff[-1][0]
                    for i, o in enumerate(b.ops):
                        if i == last_i:
                            fr.items.extend(self._pratt_rule(name, level))
                        else:
                            self._regex(o, fr)
                else:
                    self._regex(b, fr)
                lhs = fr.items if fr.elide else [(fr.kind, fr.items)]
                break
        if lhs is None:
            self._mismatch("no operand")
            return []
        while True:
            took = False
            for b in t["left"]:
                level, right_assoc, l, rr, eff = t["level"][id(b)]
                if len(eff) < 2:
                    continue
                op = eff[1][1]
                if self._guarded_user(b):
                    raise Unsupported("user predicate")
                if self.cur not in rs.predict(op, conv=True):
                    continue
                # may this operator be taken inside an operand that was opened with (min_level, strict)?
                allowed = level > min_level or (level == min_level and not min_strict)
                if not allowed:
                    return lhs
                fr = Frame(name, False)
                fr.items = list(lhs)
                first_i = eff[0][0]
                last_i = eff[-1][0] if rr else None
                for i, o in enumerate(b.ops):
                    if i == first_i:
                        continue
                    if i == last_i:
                        if right_assoc:
                            fr.items.extend(self._pratt_rule(name, level, False))
                        else:
                            fr.items.extend(self._pratt_rule(name, level, True))
                    else:
                        self._regex(o, fr)
                lhs = [(fr.kind, fr.items)]
                took = True
                break
            if not took:
                return lhs


class Frame:
    __slots__ = ("rule", "kind", "elide", "items", "marks")

    def __init__(self, rule, elided):
        self.rule = rule
        self.kind = rule
        self.elide = elided
        self.items = []
        self.marks = {}


def dump(tree) -> str:
    """same format as the arena's tree dump (trivia-free)"""
    if isinstance(tree, str):
        return tree
    kind, items = tree
    if not items:
        return f"({kind})"
    return "(" + kind + " " + " ".join(dump(i) for i in items) + ")"
