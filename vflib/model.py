"""Grammar model of the harness (independent of lelwel's own parse) and its renderer.

A grammar is a list of declarations in source order.  Regexes are trees of `N`.
The renderer produces lelwel grammar text *and* the byte span of every model
node in that text, which is how observations of the real code (keyed by node
kind + span) are matched back to the model.
"""
from __future__ import annotations
import random

WORD = set("abcdefghijklmnopqrstuvwxyzABCDEFGHIJKLMNOPQRSTUVWXYZ0123456789_")

# kinds as lelwel's Rule enum prints them (Debug of Rule = snake case name)
LELWEL_KIND = {
    "name": "name", "sym": "symbol", "concat": "concat", "alt": "alternation",
    "choice": "ordered_choice", "star": "star", "plus": "plus", "opt": "optional",
    "paren": "paren", "pred": "predicate", "action": "action", "assert": "assertion",
    "rename": "node_rename", "elide": "node_elision", "marker": "node_marker",
    "create": "node_creation", "commit": "commit", "return": "return",
}


class N:
    """Regex node. k = kind; ops = children; v = payload."""
    __slots__ = ("k", "ops", "v", "span", "uid")

    def __init__(self, k, ops=None, v=None):
        self.k = k
        self.ops = list(ops) if ops else []
        self.v = v
        self.span = None
        self.uid = None

    def __repr__(self):
        if self.k in ("name", "sym", "pred", "action", "assert", "rename", "marker", "create"):
            return f"{self.k}:{self.v}"
        if not self.ops and self.k not in ("paren",):
            return self.k
        return f"{self.k}({', '.join(map(repr, self.ops))})"

    def walk(self):
        yield self
        for o in self.ops:
            yield from o.walk()

    def clone(self):
        n = N(self.k, [o.clone() for o in self.ops], self.v)
        return n

    def to_json(self):
        """Same shape as vprobe's `ast` dump."""
        k = self.k
        if k in ("alt", "concat", "choice"):
            return [k, [o.to_json() for o in self.ops]]
        if k in ("paren", "opt", "star", "plus"):
            return [k, self.ops[0].to_json() if self.ops else None]
        if k == "name":
            return ["name", self.v]
        if k == "sym":
            return ["sym", "'" + esc_sym(self.v) + "'"]
        if k == "pred":
            return ["pred", f"?{self.v}", self.v == "t"]
        if k == "action":
            return ["action", f"#{self.v}"]
        if k == "assert":
            return ["assert", f"!{self.v}"]
        if k == "rename":
            return ["rename", f"@{self.v}"]
        if k == "elide":
            return ["elide"]
        if k == "marker":
            return ["marker", f"<{self.v}", str(self.v)]
        if k == "create":
            num, name = self.v
            txt = (str(num) if num is not None else "") + ">" + (name or "")
            return ["create", txt, str(num) if num is not None else None, name, num is None]
        if k == "commit":
            return ["commit"]
        if k == "return":
            return ["return"]
        raise ValueError(k)


def esc_sym(body: str) -> str:
    return body.replace("\\", "\\\\").replace("'", "\\'")


# convenience constructors
def name(v): return N("name", v=v)
def sym(v): return N("sym", v=v)
def concat(*ops): return N("concat", ops)
def alt(*ops): return N("alt", ops)
def choice(*ops): return N("choice", ops)
def star(x): return N("star", [x])
def plus(x): return N("plus", [x])
def opt(x): return N("opt", [x])
def paren(x=None): return N("paren", [x] if x is not None else [])
def pred(v): return N("pred", v=v)
def action(v): return N("action", v=v)
def assertion(v): return N("assert", v=v)
def rename(v): return N("rename", v=v)
def elide(): return N("elide")
def marker(v): return N("marker", v=v)
def create(num=None, nm=None): return N("create", v=(num, nm))
def commit(): return N("commit")
def ret(): return N("return")


class Rule:
    __slots__ = ("name", "elided", "regex", "span", "name_span")

    def __init__(self, name, regex, elided=False):
        self.name = name
        self.elided = elided
        self.regex = regex
        self.span = None
        self.name_span = None

    def clone(self):
        return Rule(self.name, self.regex.clone() if self.regex else None, self.elided)


class Grammar:
    """decls: list of
         ('token', [(name, symbol_body|None), ...])
         ('skip', [ref, ...])   ref = token name or "'symbol'"
         ('right', [ref, ...])
         ('start', rule_name)
         ('part', [rule_name, ...])
         ('rule', Rule)
    """

    def __init__(self, decls=None):
        self.decls = list(decls) if decls else []
        self.text = None
        self.decl_spans = None

    # ---- accessors -------------------------------------------------------
    def clone(self):
        out = []
        for d in self.decls:
            if d[0] == "rule":
                out.append(("rule", d[1].clone()))
            elif d[0] in ("token",):
                out.append((d[0], list(d[1])))
            elif d[0] in ("skip", "right", "part"):
                out.append((d[0], list(d[1])))
            else:
                out.append(d)
        return Grammar(out)

    @property
    def tokens(self):
        """ordered list of (name, symbol)"""
        return [t for d in self.decls if d[0] == "token" for t in d[1]]

    @property
    def token_names(self):
        return [t[0] for t in self.tokens]

    def sym_to_name(self):
        return {s: n for n, s in self.tokens if s is not None}

    def resolve_ref(self, ref):
        """token reference in skip/right lists -> token name"""
        if ref.startswith("'"):
            body = ref[1:-1].replace("\\'", "'").replace("\\\\", "\\")
            return self.sym_to_name().get(body)
        return ref

    @property
    def skipped(self):
        return [self.resolve_ref(r) for d in self.decls if d[0] == "skip" for r in d[1]]

    @property
    def right(self):
        return [self.resolve_ref(r) for d in self.decls if d[0] == "right" for r in d[1]]

    @property
    def start(self):
        for d in self.decls:
            if d[0] == "start":
                return d[1]
        return None

    @property
    def parts(self):
        return [r for d in self.decls if d[0] == "part" for r in d[1]]

    @property
    def rules(self):
        return [d[1] for d in self.decls if d[0] == "rule"]

    def rule(self, nm):
        for r in self.rules:
            if r.name == nm:
                return r
        return None

    def tok_of(self, node):
        """token name denoted by a name/sym node, or None if it is a rule ref"""
        if node.k == "sym":
            return self.sym_to_name().get(node.v)
        if node.k == "name" and node.v[:1].isupper():
            return node.v
        return None

    def to_json(self):
        out = []
        for d in self.decls:
            if d[0] == "token":
                out.append(["token", [[n, ("'" + esc_sym(s) + "'") if s is not None else None] for n, s in d[1]]])
            elif d[0] in ("skip", "right", "part"):
                out.append([d[0], list(d[1])])
            elif d[0] == "start":
                out.append(["start", d[1]])
            else:
                r = d[1]
                out.append(["rule", r.name, r.elided, r.regex.to_json() if r.regex else None])
        return out


# ---------------------------------------------------------------------------
# rendering
# ---------------------------------------------------------------------------

class _Lex:
    __slots__ = ("txt", "brk")

    def __init__(self, txt, brk=False):
        self.txt = txt
        self.brk = brk  # canonical layout puts a line break before this lexeme


def _emit_regex(n: N, out: list, owner: list):
    """appends lexemes of n to out; records (node, first_idx, last_idx) in owner"""
    first = len(out)
    k = n.k
    if k == "name":
        out.append(_Lex(n.v))
    elif k == "sym":
        out.append(_Lex("'" + esc_sym(n.v) + "'"))
    elif k == "concat":
        for o in n.ops:
            _emit_regex(o, out, owner)
    elif k == "alt":
        for i, o in enumerate(n.ops):
            if i:
                out.append(_Lex("|"))
            _emit_regex(o, out, owner)
    elif k == "choice":
        for i, o in enumerate(n.ops):
            if i:
                out.append(_Lex("/"))
            _emit_regex(o, out, owner)
    elif k == "star":
        _emit_regex(n.ops[0], out, owner)
        out.append(_Lex("*"))
    elif k == "plus":
        _emit_regex(n.ops[0], out, owner)
        out.append(_Lex("+"))
    elif k == "opt":
        out.append(_Lex("["))
        _emit_regex(n.ops[0], out, owner)
        out.append(_Lex("]"))
    elif k == "paren":
        out.append(_Lex("("))
        if n.ops:
            _emit_regex(n.ops[0], out, owner)
        out.append(_Lex(")"))
    elif k == "pred":
        out.append(_Lex(f"?{n.v}"))
    elif k == "action":
        out.append(_Lex(f"#{n.v}"))
    elif k == "assert":
        out.append(_Lex(f"!{n.v}"))
    elif k == "rename":
        out.append(_Lex(f"@{n.v}"))
    elif k == "elide":
        out.append(_Lex("^"))
    elif k == "marker":
        out.append(_Lex(f"<{n.v}"))
    elif k == "create":
        num, nm = n.v
        out.append(_Lex((str(num) if num is not None else "") + ">" + (nm or "")))
    elif k == "commit":
        out.append(_Lex("~"))
    elif k == "return":
        out.append(_Lex("&"))
    else:
        raise ValueError(k)
    owner.append((n, first, len(out) - 1))


def needs_gap(prev: str, nxt: str) -> bool:
    """True if the two lexemes would lex differently when glued together."""
    a, b = prev[-1], nxt[0]
    if a in WORD and b in WORD:
        return True
    # `>` / `@` / `?` / `#` / `!` / `<` take following word chars as payload
    if b in WORD:
        # find the lexeme class of prev: ends with '>' (nameless creation), '@'
        if prev.endswith(">") or prev == "@":
            return True
    if a == "/" and b in "/*":
        return True
    if a == "'" and b == "'":
        return False
    return False


COMMENT_WORDS = ["c", "note", "x y", "todo: fix", "a | b", "'q'", "é", "1>x", "/* in */", ";", "𝔘𝔘 wide",
                 "first line\n   second line", "\n * boxed\n * comment\n ", "a\n\nb", "\u3000wide blank first", "\u00a0nbsp first", "x *", "***", "", "banner ***", "* / * /"]


def random_gap(rng: random.Random, prev: str, nxt: str, toplevel: bool, p_comment=0.25):
    """a legal gap between two lexemes (whitespace and comments)"""
    must = needs_gap(prev, nxt) if prev and nxt else False
    r = rng.random()
    parts = []
    if r < 0.30 and not must:
        gap = ""
    else:
        n = rng.choice([1, 1, 1, 2, 3])
        for _ in range(n):
            c = rng.random()
            if c < p_comment:
                kind = rng.random()
                w = rng.choice(COMMENT_WORDS)
                if kind < 0.45 or kind >= 0.85:
                    w = " ".join(w.split())      # line / doc comments end at the line break
                if kind < 0.45:
                    if w.startswith("/"):
                        w = " " + w
                    parts.append("//" + w + "\n")
                elif kind < 0.85:
                    parts.append("/*" + w.replace("*/", "* /").replace("/* in */", "in") + "*/")
                else:
                    parts.append("///" + (" " if rng.random() < 0.6 else "") + w + "\n")
            else:
                parts.append(rng.choice([" ", " ", "  ", "\n", "\n  ", "\t", " \n", "\r\n", "\n\n"]))
        gap = "".join(parts)
        if must and gap and gap[0] == "/" and prev and prev[-1] == "/":
            gap = " " + gap
        if prev and prev[-1] == "/" and gap[:1] == "/":
            gap = " " + gap
        if gap.endswith("*/") and nxt[:1] == "/":
            pass
    # a gap that is only comments glued to word chars is fine lexically
    if must and gap == "":
        gap = " "
    return gap


def render(g: Grammar, rng: random.Random | None = None, p_comment=0.25) -> str:
    """Renders g; fills .span of every regex node / rule and g.decl_spans.
    rng None -> canonical layout (single blanks, one declaration per line)."""
    lex: list[_Lex] = []
    owner = []
    decl_idx = []
    rule_idx = []
    for d in g.decls:
        first = len(lex)
        kind = d[0]
        if kind == "token":
            lex.append(_Lex("token", True))
            for nm, s in d[1]:
                lex.append(_Lex(nm))
                if s is not None:
                    lex.append(_Lex("="))
                    lex.append(_Lex("'" + esc_sym(s) + "'"))
            lex.append(_Lex(";"))
        elif kind in ("skip", "right", "part"):
            lex.append(_Lex(kind, True))
            for r in d[1]:
                lex.append(_Lex(r))
            lex.append(_Lex(";"))
        elif kind == "start":
            lex.append(_Lex("start", True))
            lex.append(_Lex(d[1]))
            lex.append(_Lex(";"))
        elif kind == "rule":
            r = d[1]
            lex.append(_Lex(r.name, True))
            if r.elided:
                lex.append(_Lex("^"))
            lex.append(_Lex(":"))
            if r.regex is not None:
                _emit_regex(r.regex, lex, owner)
            lex.append(_Lex(";"))
            rule_idx.append((r, first, len(lex) - 1))
        else:
            raise ValueError(kind)
        decl_idx.append((first, len(lex) - 1))
    # layout
    pieces = []
    starts = []
    ends = []
    off = 0
    prev = ""
    for i, lx in enumerate(lex):
        if i == 0:
            gap = "" if rng is None else rng.choice(["", "", "\n", " ", "// head\n", "/* h */ "])
        elif rng is None:
            gap = "\n" if lx.brk else " "
        else:
            gap = random_gap(rng, prev, lx.txt, lx.brk, p_comment)
        pieces.append(gap)
        off += len(gap.encode())
        starts.append(off)
        pieces.append(lx.txt)
        off += len(lx.txt.encode())
        ends.append(off)
        prev = lx.txt
    tail = "\n" if rng is None else rng.choice(["", "\n", " ", "\n// tail\n", " /* t */"])
    pieces.append(tail)
    text = "".join(pieces)
    for n, a, b in owner:
        n.span = (starts[a], ends[b])
    for r, a, b in rule_idx:
        r.span = (starts[a], ends[b])
        r.name_span = (starts[a], ends[a])
    g.decl_spans = [(starts[a], ends[b]) for a, b in decl_idx]
    g.text = text
    return text


# ---------------------------------------------------------------------------
# well-formedness helpers for generators
# ---------------------------------------------------------------------------

PREC = {"alt": 0, "choice": 1, "concat": 2}


def parenthesize(n: N, ctx: int = 0) -> N:
    """Inserts the paren nodes lelwel's grammar needs so that rendering and
    re-reading n yields the same tree (alt < choice < concat < postfix)."""
    k = n.k
    if k in PREC:
        me = PREC[k]
        child_ctx = me + 1
        ops = [parenthesize(o, child_ctx) for o in n.ops]
        out = N(k, ops, n.v)
        if me < ctx:
            return N("paren", [out])
        return out
    if k in ("star", "plus"):
        inner = parenthesize(n.ops[0], 3)
        return N(k, [inner], n.v)
    if k == "opt":
        return N(k, [parenthesize(n.ops[0], 0)], n.v)
    if k == "paren":
        return N(k, [parenthesize(n.ops[0], 0)] if n.ops else [], n.v)
    return N(k, [], n.v)


def strip_paren(n: N) -> N:
    while n.k == "paren" and n.ops:
        n = n.ops[0]
    return n


# ---------------------------------------------------------------------------
# reading a canonically rendered grammar back (lexemes separated by blanks): used by replay / one-off runs
# ---------------------------------------------------------------------------

def _unesc_sym(lexeme: str) -> str:
    return lexeme[1:-1].replace("\\'", "'").replace("\\\\", "\\")


def parse_canonical(text: str) -> Grammar:
    import re
    lex = re.findall(r"'(?:\\.|[^'\\])*'|[^\s]+", text)
    pos = [0]

    def cur():
        return lex[pos[0]] if pos[0] < len(lex) else None

    def eat():
        t = lex[pos[0]]
        pos[0] += 1
        return t

    def atom():
        t = eat()
        if t == "(":
            if cur() == ")":
                eat()
                return N("paren")
            x = p_alt()
            assert eat() == ")"
            return N("paren", [x])
        if t == "[":
            x = p_alt()
            assert eat() == "]"
            return N("opt", [x])
        if t.startswith("'"):
            return sym(_unesc_sym(t))
        if t == "^":
            return elide()
        if t == "~":
            return commit()
        if t == "&":
            return ret()
        if t[0] == "?":
            return pred(t[1:] if t[1:] == "t" else int(t[1:]))
        if t[0] == "#":
            return action(int(t[1:]))
        if t[0] == "!":
            return assertion(int(t[1:]))
        if t[0] == "@":
            return rename(t[1:])
        if t[0] == "<" and t[1:].isdigit():
            return marker(int(t[1:]))
        m = re.fullmatch(r"(\d*)>(\w*)", t)
        if m:
            return create(int(m.group(1)) if m.group(1) else None, m.group(2) or None)
        return name(t)

    def postfix():
        x = atom()
        while cur() in ("*", "+"):
            x = N("star" if eat() == "*" else "plus", [x])
        return x

    def p_concat():
        ops = []
        while cur() not in (None, "|", "/", ")", "]", ";"):
            ops.append(postfix())
        if len(ops) == 1:
            return ops[0]
        return N("concat", ops)

    def p_choice():
        ops = [p_concat()]
        while cur() == "/":
            eat()
            ops.append(p_concat())
        return ops[0] if len(ops) == 1 else N("choice", ops)

    def p_alt():
        ops = [p_choice()]
        while cur() == "|":
            eat()
            ops.append(p_choice())
        return ops[0] if len(ops) == 1 else N("alt", ops)

    decls = []
    while cur() is not None:
        t = eat()
        if t == "token":
            toks = []
            while cur() != ";":
                nm = eat()
                s = None
                if cur() == "=":
                    eat()
                    s = _unesc_sym(eat())
                toks.append((nm, s))
            eat()
            decls.append(("token", toks))
        elif t in ("skip", "right", "part"):
            refs = []
            while cur() != ";":
                refs.append(eat())
            eat()
            decls.append((t, refs))
        elif t == "start":
            decls.append(("start", eat()))
            assert eat() == ";"
        else:
            elided = False
            if cur() == "^":
                eat()
                elided = True
            assert eat() == ":", (t, cur())
            rx = None if cur() == ";" else p_alt()
            assert eat() == ";"
            decls.append(("rule", Rule(t, rx, elided)))
    g = Grammar(decls)
    return g
