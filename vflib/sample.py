"""Input generators for generated parsers: sentences sampled from the grammar model, prefixes,
single-edit mutants, random strings, long runs, trivia variants."""
from __future__ import annotations
import random
from .model import Grammar, N

INF = 10 ** 6


class Sampler:
    def __init__(self, g: Grammar):
        self.g = g
        self.rules = {r.name: r for r in g.rules}
        self.sym2name = g.sym_to_name()
        self.height = {}
        self._heights()

    # minimal derivation height per node / rule, to steer towards termination
    def _heights(self):
        h = {nm: INF for nm in self.rules}
        changed = True

        def nh(n: N):
            k = n.k
            if k == "name":
                if n.v[:1].islower():
                    return h.get(n.v, INF) + 1
                return 1
            if k == "sym":
                return 1
            if k == "concat":
                return 1 + max((nh(o) for o in n.ops), default=0)
            if k in ("alt", "choice"):
                return 1 + min(nh(o) for o in n.ops)
            if k in ("star", "opt"):
                return 1
            if k == "plus":
                return 1 + nh(n.ops[0])
            if k == "paren":
                return 1 + (nh(n.ops[0]) if n.ops else 0)
            return 1

        while changed:
            changed = False
            for nm, r in self.rules.items():
                v = 1 if r.regex is None else nh(r.regex)
                if v < h[nm]:
                    h[nm] = v
                    changed = True
        self.h = h
        self.nh = nh

    def sentence(self, rng: random.Random, entry: str, depth=8, max_len=60):
        out = []
        r = self.rules[entry]
        if r.regex is not None:
            self._gen(r.regex, rng, depth, out, max_len)
        return out

    def _gen(self, n: N, rng, depth, out, max_len):
        k = n.k
        if len(out) > max_len:
            depth = 0
        if k == "name":
            if n.v[:1].islower():
                r = self.rules.get(n.v)
                if r is not None and r.regex is not None:
                    self._gen(r.regex, rng, depth - 1, out, max_len)
            else:
                out.append(n.v)
        elif k == "sym":
            t = self.sym2name.get(n.v)
            if t:
                out.append(t)
        elif k == "concat":
            for o in n.ops:
                self._gen(o, rng, depth, out, max_len)
        elif k in ("alt", "choice"):
            ops = n.ops
            if depth <= 0:
                best = min(self.nh(o) for o in ops)
                ops = [o for o in ops if self.nh(o) == best]
            else:
                ok = [o for o in ops if self.nh(o) <= depth + 2]
                ops = ok or [min(ops, key=self.nh)]
            self._gen(rng.choice(ops), rng, depth - 1, out, max_len)
        elif k == "star":
            reps = 0 if depth <= 0 else rng.choice([0, 0, 1, 1, 2, 3])
            for _ in range(reps):
                self._gen(n.ops[0], rng, depth - 1, out, max_len)
        elif k == "plus":
            reps = 1 if depth <= 0 else rng.choice([1, 1, 2, 3])
            for _ in range(reps):
                self._gen(n.ops[0], rng, depth - 1, out, max_len)
        elif k == "opt":
            if depth > 0 and rng.random() < 0.55:
                self._gen(n.ops[0], rng, depth - 1, out, max_len)
        elif k == "paren":
            if n.ops:
                self._gen(n.ops[0], rng, depth, out, max_len)


def mutants(rng: random.Random, sent, alphabet, n):
    out = []
    for _ in range(n):
        s = list(sent)
        op = rng.choice(["delete", "insert", "replace", "swap", "dup"])
        if not s:
            op = "insert"
        i = rng.randrange(len(s) + (1 if op == "insert" else 0)) if (s or op == "insert") else 0
        if op == "delete":
            del s[i]
        elif op == "insert":
            s.insert(i, rng.choice(alphabet))
        elif op == "replace":
            s[i] = rng.choice(alphabet)
        elif op == "swap" and i + 1 < len(s):
            s[i], s[i + 1] = s[i + 1], s[i]
        elif op == "dup":
            s.insert(i, s[i])
        out.append(s)
    return out


def with_trivia(rng: random.Random, sent, trivia, mode):
    """inserts skipped / Error tokens: mode = every | random | ends"""
    if not trivia:
        return list(sent)
    out = []
    n = len(sent)
    for i in range(n + 1):
        put = (mode == "every") or (mode == "random" and rng.random() < 0.4) or (mode == "ends" and i in (0, n))
        if put:
            for _ in range(rng.choice([1, 1, 2])):
                out.append(rng.choice(trivia))
        if i < n:
            out.append(sent[i])
    return out
