"""Build / process plumbing shared by all checks."""
from __future__ import annotations
import hashlib
import json
import os
import subprocess
import sys
import time
from pathlib import Path

VERIF = Path(__file__).resolve().parent.parent
REPO = Path(os.environ.get("VERIF_REPO", "/repo"))
# VERIF_REPO (default /repo) lets the machinery be pointed at a scratch worktree with a seeded change, with
# its own cache / work / evidence / replay directories, so that such a trial never touches what the registered
# checks use.  The registered commands never set it.
ALT = None if str(REPO) == "/repo" else "alt_" + hashlib.sha1(str(REPO).encode()).hexdigest()[:8]
CACHE = VERIF / ".cache" if ALT is None else VERIF / ".cache" / ALT
WORK = VERIF / ".work" if ALT is None else VERIF / ".work" / ALT
OUT = VERIF if ALT is None else CACHE / "out"      # evidence/ and replays/ live under OUT
TARGET = CACHE / "target"
TARGET_REPO = CACHE / "target-repo"   # /repo's own workspace build: must not share artefacts with vprobe's

ENV = dict(os.environ)
ENV.update({
    "CARGO_NET_OFFLINE": "true",
    "CARGO_TARGET_DIR": str(TARGET),
    "RUST_BACKTRACE": "0",
    "NO_COLOR": "1",
    "CARGO_TERM_COLOR": "never",
})
ENV.pop("RUSTFLAGS", None)


def seed() -> int:
    try:
        return int(os.environ.get("VERIF_SEED", "1"))
    except ValueError:
        return 1


def log(*a):
    print(*a, file=sys.stderr, flush=True)


def run(cmd, **kw):
    kw.setdefault("env", ENV)
    kw.setdefault("stdout", subprocess.PIPE)
    kw.setdefault("stderr", subprocess.STDOUT)
    kw.setdefault("text", True)
    return subprocess.run(cmd, **kw)


class Inconclusive(Exception):
    pass


_built = {}


def _cargo(args, cwd, what, target=None, extra_env=None):
    t = time.time()
    env = dict(ENV)
    if extra_env:
        env.update(extra_env)
    if target is not None:
        env["CARGO_TARGET_DIR"] = str(target)
    r = run(["cargo"] + args, cwd=str(cwd), env=env)
    if r.returncode != 0:
        tail = "\n".join(r.stdout.splitlines()[-40:])
        raise Inconclusive(f"build of {what} failed:\n{tail}")
    log(f"[build] {what}: {time.time() - t:.1f}s")


def probe_crate() -> Path:
    """the vprobe crate; for an alternative repository a copy whose path dependency points there"""
    src = VERIF / "rust" / "probe"
    if ALT is None:
        return src
    import shutil
    dst = CACHE / "probe"
    if dst.exists():
        shutil.rmtree(dst)
    shutil.copytree(src, dst)
    t = (dst / "Cargo.toml").read_text().replace('path = "/repo"', f'path = "{REPO}"')
    (dst / "Cargo.toml").write_text(t)
    return dst


def build_probe(profile="dev") -> Path:
    """(Re)builds vprobe against /repo's current working tree (cargo decides what is stale)."""
    key = ("probe", profile)
    if key not in _built:
        if profile == "asan":
            # AddressSanitizer build (nightly): every dependency is rebuilt with the same flags
            t = CACHE / "target-asan"
            _cargo(["+nightly", "build", "--offline", "--release", "--target", "x86_64-unknown-linux-gnu"], probe_crate(), "vprobe[asan]", target=t,
                   extra_env={"RUSTFLAGS": "-Zsanitizer=address -Cforce-frame-pointers=yes"})
            _built[key] = t / "x86_64-unknown-linux-gnu" / "release" / "vprobe"
            return _built[key]
        args = ["build", "--offline"]
        if profile == "release":
            args.append("--release")
        _cargo(args, probe_crate(), f"vprobe[{profile}]")
        _built[key] = TARGET / ("release" if profile == "release" else "debug") / "vprobe"
    return _built[key]


def build_ls_tsan() -> Path:
    """lelwel-ls under ThreadSanitizer (nightly, -Zbuild-std so that std is instrumented as well)"""
    key = ("ls", "tsan")
    if key not in _built:
        t = CACHE / "target-tsan"
        _cargo(["+nightly", "build", "--offline", "-Zbuild-std", "--target", "x86_64-unknown-linux-gnu", "--manifest-path", str(REPO / "Cargo.toml"),
                "--features", "lsp", "--bin", "lelwel-ls"], REPO, "lelwel-ls[tsan]", target=t, extra_env={"RUSTFLAGS": "-Zsanitizer=thread"})
        _built[key] = t / "x86_64-unknown-linux-gnu" / "debug" / "lelwel-ls"
    return _built[key]


def build_bins(profile="release") -> dict:
    """builds the real llw and lelwel-ls from /repo's working tree"""
    key = ("bins", profile)
    if key not in _built:
        args = ["build", "--offline", "--manifest-path", str(REPO / "Cargo.toml"),
                "--features", "cli,lsp", "--bin", "llw", "--bin", "lelwel-ls"]
        if profile == "release":
            args.append("--release")
        _cargo(args, REPO, f"llw+lelwel-ls[{profile}]", target=TARGET_REPO)
        d = TARGET_REPO / ("release" if profile == "release" else "debug")
        _built[key] = {"llw": d / "llw", "lelwel-ls": d / "lelwel-ls"}
    return _built[key]


def repo_hash() -> str:
    """sha256 over every tracked + untracked (non-ignored) file of /repo that can influence a build"""
    r = run(["git", "-C", str(REPO), "ls-files", "-co", "--exclude-standard"], stderr=subprocess.DEVNULL)
    h = hashlib.sha256()
    for f in sorted(r.stdout.splitlines()):
        p = REPO / f
        if not p.is_file():
            continue
        if not (f.startswith("src/") or f in ("Cargo.toml", "Cargo.lock") or f.endswith(".llw")):
            continue
        h.update(f.encode())
        h.update(b"\0")
        h.update(p.read_bytes())
    return h.hexdigest()[:16]


class Probe:
    """line-oriented JSON client of `vprobe serve`; restarts the process if it dies and
    reports the request that killed it as {'died': <signal/returncode>}."""

    def __init__(self, profile="dev"):
        self.exe = build_probe(profile)
        self.profile = profile
        self.p = None
        self.nreq = 0

    def _start(self):
        self.p = subprocess.Popen([str(self.exe), "serve"], stdin=subprocess.PIPE, stdout=subprocess.PIPE,
                                  stderr=subprocess.DEVNULL, env=ENV, text=True, bufsize=1)

    def ask(self, cmd, **kw):
        if self.p is None or self.p.poll() is not None:
            self._start()
        self.nreq += 1
        req = {"id": self.nreq, "cmd": cmd}
        req.update(kw)
        try:
            self.p.stdin.write(json.dumps(req) + "\n")
            self.p.stdin.flush()
            line = self.p.stdout.readline()
        except BrokenPipeError:
            line = ""
        if not line:
            rc = self.p.wait()
            self.p = None
            return {"died": rc}
        return json.loads(line)

    def close(self):
        if self.p is not None:
            try:
                self.p.stdin.close()
                self.p.wait(timeout=5)
            except Exception:
                self.p.kill()
            self.p = None


def pmap(fn, items, workers=16):
    """order-preserving process-parallel map (fork; fn and items must be picklable-free closures ok)"""
    import multiprocessing as mp
    if workers <= 1 or len(items) <= 1:
        return [fn(x) for x in items]
    ctx = mp.get_context("fork")
    with ctx.Pool(min(workers, len(items))) as pool:
        return pool.map(fn, items, chunksize=1)


def fresh_dir(name: str) -> Path:
    import shutil
    d = WORK / name
    if d.exists():
        shutil.rmtree(d)
    d.mkdir(parents=True)
    return d


def rmtree(p):
    import shutil
    shutil.rmtree(p, ignore_errors=True)
