"""T-text: hostile grammar-file texts for the front end (C12) and the formatter (C17, C18)."""
from __future__ import annotations
import json
import random
import re
import subprocess
from pathlib import Path
from .tools import REPO, WORK, TARGET, ENV, build_probe, log, Inconclusive

ALPHABET = [
    "token", "start", "right", "skip", "part",
    ":", ";", "=", "(", ")", "[", "]", "|", "*", "+", "^", "/", "~", "&",
    "a", "B", "'x'", "'\\''",
    "?1", "?t", "#1", "!1", "@x", "@", "<1", "1>x", "1>", ">",
    "// c\n", "/* c */", "/// d\n", "\n", "$", "é", "'u", "/* u",
]

TOKEN_RE = re.compile(r"""//[^\n]*\n?|/\*.*?\*/|'(?:\\.|[^'\\\n])*'?|[A-Za-z][A-Za-z_0-9]*|\?[0-9t]+|[#!<][0-9]+|@[A-Za-z_0-9]*|[0-9]*>[A-Za-z_0-9]*|\s+|.""", re.S)


def repo_grammars():
    r = subprocess.run(["git", "-C", str(REPO), "ls-files", "-co", "--exclude-standard", "*.llw"],
                       stdout=subprocess.PIPE, text=True)
    out = []
    for f in sorted(r.stdout.splitlines()):
        p = REPO / f
        if p.is_file():
            try:
                out.append((f, p.read_text()))
            except UnicodeDecodeError:
                pass
    return out


def tokenize(text):
    return TOKEN_RE.findall(text)


def mutants(rng: random.Random, text: str, n: int):
    toks = tokenize(text)
    if not toks:
        return
    for _ in range(n):
        t = list(toks)
        for _ in range(rng.choice([1, 1, 1, 2, 3])):
            i = rng.randrange(len(t)) if t else 0
            op = rng.choice(["delete", "dup", "insert", "swap", "truncate", "replace"])
            if not t:
                break
            if op == "delete":
                del t[i]
            elif op == "dup":
                t.insert(i, t[i])
            elif op == "insert":
                t.insert(i, rng.choice(ALPHABET))
            elif op == "swap" and i + 1 < len(t):
                t[i], t[i + 1] = t[i + 1], t[i]
            elif op == "truncate":
                t = t[:i]
            elif op == "replace":
                t[i] = rng.choice(ALPHABET)
        yield "".join(t)


SOUP = list("abAB01 \n\t'\\/*:;=()[]|+^~&?#!@<>$é→𝔘\r_") + ["//", "/*", "*/", "''", "token ", "start ", "///", "\\'"]


def soup(rng: random.Random, n: int):
    for _ in range(n):
        k = rng.choice([1, 2, 3, 5, 8, 13, 30, 80])
        yield "".join(rng.choice(SOUP) for _ in range(k))


def valid_layouts(rng: random.Random, n: int, p_comment=None):
    """syntactically valid grammar files in random layouts with comments in every kind of gap"""
    from .gen import SynGen
    from .gvalid import GValid
    from .model import render
    sg = SynGen(rng, max_depth=4)
    gv = GValid(rng)
    for i in range(n):
        if i % 3 == 0:
            g, _ = gv.grammar()
            if g is None:
                continue
        else:
            g = sg.grammar()
        # SynGen symbols may contain text that is only legal inside quotes; all gaps are legal
        yield render(g, rng, p_comment=rng.choice([0.1, 0.3, 0.5]) if p_comment is None else p_comment)
        if i % 5 == 0:
            yield render(g)


def single_comment(rng: random.Random, n: int):
    """canonical renderings with exactly one comment inserted: every (previous token, next token,
    comment kind, placement) gap class gets hit; failures are attributable to that one gap"""
    from .gen import SynGen
    from .gvalid import GValid
    from .model import render
    sg = SynGen(rng, max_depth=3)
    gv = GValid(rng)
    out = 0
    while out < n:
        g = gv.grammar()[0] if rng.random() < 0.5 else sg.grammar()
        if g is None:
            continue
        text = render(g)
        # lexeme boundaries: canonical layout separates lexemes by exactly one blank/newline; symbols may
        # contain blanks, so split with the model's own tokenizer
        pos = []
        i = 0
        for tok in tokenize(text):
            if not tok.isspace():
                pos.append((i, i + len(tok)))
            i += len(tok)
        for _ in range(5):
            k = rng.randrange(len(pos) + 1)
            ck = rng.choice(["line", "doc", "block"])
            pl = rng.choice(["same", "eol", "own", "nlsame", "glued"])
            c = {"line": "// c\n", "doc": "/// d\n", "block": "/* c */"}[ck]
            a = text[:pos[k - 1][1]] if k > 0 else ""
            b = text[pos[k][0]:] if k < len(pos) else ""
            if ck != "block":
                mid = {"same": " " + c, "eol": " " + c, "own": "\n" + c, "nlsame": "\n  " + c, "glued": c}[pl]
                if pl == "glued" and a.endswith("/"):
                    mid = " " + c
            else:
                mid = {"same": " " + c + " ", "eol": " " + c + "\n", "own": "\n" + c + "\n", "nlsame": "\n" + c + " ",
                       "glued": c}[pl]
                if pl == "glued" and a.endswith("/"):
                    mid = " " + c
            yield a + mid + b
            out += 1


def write_texts(path: Path, texts):
    n = 0
    with open(path, "w") as f:
        for t in texts:
            f.write(json.dumps(t) + "\n")
            n += 1
    return n


def run_enum(spec: dict, profile: str, nshards=16, env_extra=None):
    """runs `vprobe enum` sharded; returns (anomalies, merged summary)"""
    exe = build_probe(profile)
    WORK.mkdir(exist_ok=True)
    procs = []
    for s in range(nshards):
        sp = dict(spec)
        sp["shard"] = s
        sp["nshards"] = nshards
        spath = WORK / f"enum_{profile}_{spec.get('tag', 'x')}_{s}.json"
        spath.write_text(json.dumps(sp))
        env = dict(ENV)
        if env_extra:
            env.update(env_extra)
        procs.append((spath, subprocess.Popen([str(exe), "enum", str(spath)], stdout=subprocess.PIPE,
                                              stderr=subprocess.DEVNULL, env=env, text=True)))
    anomalies = []
    summary = {}
    died = []
    for spath, p in procs:
        out, _ = p.communicate()
        got_summary = False
        for line in out.splitlines():
            try:
                rec = json.loads(line)
            except json.JSONDecodeError:
                continue
            if rec.get("kind") == "summary":
                got_summary = True
                for k, v in rec.items():
                    if k == "panics":
                        d = summary.setdefault("panics", {})
                        for kk, vv in v.items():
                            d[kk] = d.get(kk, 0) + vv
                    elif k == "samples":
                        summary.setdefault("samples", []).extend(v)
                    elif isinstance(v, bool):
                        summary[k] = v
                    elif isinstance(v, (int, float)):
                        summary[k] = summary.get(k, 0) + v
            else:
                anomalies.append(rec)
        if p.returncode != 0 or not got_summary:
            died.append((str(spath), p.returncode))
        else:
            spath.unlink(missing_ok=True)
    summary["died"] = died
    return anomalies, summary


def decl_mutants(rng: random.Random, n: int):
    """declaration-level edits of model-rendered accepted grammars: texts that stay syntactically valid (often even
    error-free) but have unusual *semantic* shapes - rules without a body, parts that nobody refers to, rules that
    became unreachable, declarations removed / doubled / reordered"""
    from .gvalid import GValid
    from .model import render
    gv = GValid(rng)
    out = 0
    while out < n:
        g, _ = gv.grammar()
        if g is None:
            continue
        lines = render(g).split("\n")
        g.text = None
        rules = [i for i, l in enumerate(lines) if re.match(r"^[a-z]\w* \^? ?:", l)]
        names = [lines[i].split()[0] for i in rules]
        for _ in range(6):
            t = list(lines)
            for _ in range(rng.choice([1, 1, 2, 3])):
                op = rng.choice(["empty_body", "part", "part", "drop", "dup", "swap", "start", "skip_rule", "empty_part"])
                ri = [i for i, l in enumerate(t) if re.match(r"^[a-z]\w* \^? ?:", l)]
                if op == "empty_body" and ri:
                    i = rng.choice(ri)
                    t[i] = t[i].split(":")[0] + ": ;"
                elif op == "part" and names:
                    t.append("part " + rng.choice(names) + " ;")
                elif op == "empty_part":
                    t.append("lonely_part : ;")
                    t.append("part lonely_part ;")
                elif op == "drop" and len(t) > 2:
                    del t[rng.randrange(len(t))]
                elif op == "dup":
                    t.append(rng.choice(t))
                elif op == "swap" and len(t) > 2:
                    a, b = rng.randrange(len(t)), rng.randrange(len(t))
                    t[a], t[b] = t[b], t[a]
                elif op == "start" and names:
                    t = [l for l in t if not l.startswith("start ")] + ["start " + rng.choice(names) + " ;"]
                elif op == "skip_rule" and names:
                    t.append("skip " + rng.choice(names) + " ;")
            yield "\n".join(t) + "\n"
            out += 1
