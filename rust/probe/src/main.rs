//! vprobe: observation binary for the /verif runtime monitors.
//!
//! It only calls lelwel's public API and serialises what it sees.  One JSON
//! request per input line, one JSON reply per output line (flushed), so the
//! Python side always knows which request was in flight if the process dies.
//!
//! usage: vprobe serve            (requests on stdin)
//!        vprobe enum <spec.json> (exhaustive T-text enumeration, C12/C17/C18)

use codespan_reporting::diagnostic::{LabelStyle, Severity};
use codespan_reporting::files::SimpleFile;
use codespan_reporting::term::termcolor::NoColor;
use lelwel::frontend::ast::{self, AstNode, Named};
use lelwel::frontend::lexer;
use lelwel::frontend::parser::{Cst, Diagnostic, Node, NodeRef, Parser, Rule};
use lelwel::frontend::sema::{Recursion, RuleNodeElision, SemanticData, SemanticPass};
use serde_json::{Value, json};
use std::cell::RefCell;
use std::io::{BufRead, Write};
use std::panic::{AssertUnwindSafe, catch_unwind};

mod lsp;
mod textenum;

thread_local! {
    static LAST_PANIC: RefCell<Option<(String, String)>> = const { RefCell::new(None) };
}
/// Panics of *all* threads (the language-server analysis threads included).
static FN_CACHE: std::sync::Mutex<std::collections::BTreeMap<String, String>> =
    std::sync::Mutex::new(std::collections::BTreeMap::new());
pub static PANIC_LOG: std::sync::Mutex<Vec<(String, String)>> = std::sync::Mutex::new(Vec::new());

pub fn install_hook() {
    std::panic::set_hook(Box::new(|info| {
        let msg = if let Some(s) = info.payload().downcast_ref::<&str>() {
            s.to_string()
        } else if let Some(s) = info.payload().downcast_ref::<String>() {
            s.clone()
        } else {
            "<non-string panic>".to_string()
        };
        let loc = info
            .location()
            .map(|l| format!("{}:{}:{}", l.file(), l.line(), l.column()))
            .unwrap_or_default();
        // innermost lelwel (or dependency) function on the stack: a signature that survives line shifts.
        // Resolved once per panic location (symbolisation is slow).
        let func = {
            let mut cache = FN_CACHE.lock().unwrap_or_else(|e| e.into_inner());
            if let Some(f) = cache.get(&loc) {
                f.clone()
            } else {
                let bt = std::backtrace::Backtrace::force_capture().to_string();
                let mut found = String::new();
                let mut past_panic = false;
                for line in bt.lines() {
                    let t = line.trim_start();
                    let Some((idx, sym)) = t.split_once(": ") else { continue };
                    if !idx.chars().all(|c| c.is_ascii_digit()) {
                        continue;
                    }
                    if sym.contains("rust_begin_unwind") || sym.contains("panic_fmt") || sym.contains("core::panicking")
                        || sym.contains("option::unwrap_failed") || sym.contains("result::unwrap_failed")
                        || sym.contains("option::expect_failed") {
                        past_panic = true;
                        continue;
                    }
                    if past_panic && !sym.starts_with("std::") && !sym.starts_with("core::") && !sym.starts_with("vprobe::")
                        && !sym.starts_with("<core::") && !sym.starts_with("<std::") {
                        found = sym.to_string();
                        break;
                    }
                }
                // strip the hash suffix `::h0123...`
                if let Some(pos) = found.rfind("::h") {
                    if found.len() - pos == 19 {
                        found.truncate(pos);
                    }
                }
                cache.insert(loc.clone(), found.clone());
                found
            }
        };
        let loc = format!("{loc} in {func}");
        if let Ok(mut log) = PANIC_LOG.lock() {
            log.push((msg.clone(), loc.clone()));
        }
        LAST_PANIC.with(|p| *p.borrow_mut() = Some((msg, loc)));
    }));
}

/// Runs `f`, turning a panic into an observation.
pub fn guarded<T>(f: impl FnOnce() -> T) -> Result<T, Value> {
    LAST_PANIC.with(|p| *p.borrow_mut() = None);
    match catch_unwind(AssertUnwindSafe(f)) {
        Ok(v) => Ok(v),
        Err(_) => {
            let (msg, loc) = LAST_PANIC
                .with(|p| p.borrow_mut().take())
                .unwrap_or_default();
            let func = loc.split_once(" in ").map(|x| x.1.to_string()).unwrap_or_default();
            let file = loc.split(':').next().unwrap_or("").to_string();
            Err(json!({"msg": msg, "loc": loc, "fn": func, "file": file}))
        }
    }
}

fn sev(s: Severity) -> &'static str {
    match s {
        Severity::Bug => "bug",
        Severity::Error => "error",
        Severity::Warning => "warning",
        Severity::Note => "note",
        Severity::Help => "help",
    }
}

pub fn diag_json(d: &Diagnostic) -> Value {
    json!({
        "sev": sev(d.severity),
        "code": d.code,
        "msg": d.message,
        "labels": d.labels.iter().map(|l| json!({
            "primary": l.style == LabelStyle::Primary,
            "s": l.range.start, "e": l.range.end, "msg": l.message,
        })).collect::<Vec<_>>(),
        "notes": d.notes,
    })
}

fn rule_kind(r: Rule) -> String {
    format!("{r:?}")
}

fn set_json<T: std::fmt::Debug>(set: Option<&std::collections::BTreeSet<T>>) -> Value {
    match set {
        None => Value::Null,
        Some(s) => Value::Array(s.iter().map(|t| Value::String(format!("{t:?}"))).collect()),
    }
}

fn elision_str(e: Option<&RuleNodeElision>) -> Value {
    match e {
        None => Value::Null,
        Some(RuleNodeElision::None) => "none".into(),
        Some(RuleNodeElision::Unconditional) => "uncond".into(),
        Some(RuleNodeElision::Conditional) => "cond".into(),
    }
}

fn walk_nodes(cst: &Cst<'_>, sema: &SemanticData<'_>, node: NodeRef, out: &mut Vec<Value>) {
    if let Node::Rule(rule, _) = cst.get(node) {
        if ast::Regex::cast(cst, node).is_some() {
            let span = cst.span(node);
            out.push(json!({
                "k": rule_kind(rule),
                "s": [span.start, span.end],
                "first": set_json(sema.first_sets.get(&node)),
                "follow": set_json(sema.follow_sets.get(&node)),
                "predict": set_json(sema.predict_sets.get(&node)),
                "recovery": set_json(sema.recovery_sets.get(&node)),
                "elision": elision_str(sema.elision.get(&node)),
                "in_choice": sema.used_in_ordered_choice.contains(&node),
                "bind": sema.decl_bindings.get(&node).map(|d| { let s = cst.span(*d); vec![s.start, s.end] }),
            }));
        }
        for c in cst.children(node) {
            walk_nodes(cst, sema, c, out);
        }
    }
}

fn sema_cmd(text: &str, full: bool) -> Value {
    let mut diags = vec![];
    let cst = Parser::new(text, &mut diags).parse(&mut diags);
    let n_syntax = diags.len();
    let sema = SemanticPass::run(&cst, &mut diags);
    let mut nodes = vec![];
    let mut rules = vec![];
    if full {
        walk_nodes(&cst, &sema, NodeRef::ROOT, &mut nodes);
        if let Some(file) = ast::File::cast(&cst, NodeRef::ROOT) {
            for rule in file.rule_decls(&cst) {
                let span = rule.span(&cst);
                let regex = rule.regex(&cst);
                let rec = sema.recursive.get(&rule).map(|rb| {
                    rb.branches()
                        .iter()
                        .map(|b| {
                            let (kind, li, ri) = match b {
                                Recursion::Left(_, i) => ("left", Some(*i), None),
                                Recursion::Right(_, i) => ("right", None, Some(*i)),
                                Recursion::LeftRight(_, l, r) => ("leftright", Some(*l), Some(*r)),
                            };
                            let s = b.regex().span(&cst);
                            let bp = rb.binding_power(b.regex());
                            json!({"kind": kind, "s": [s.start, s.end], "li": li, "ri": ri, "bp": [bp.0, bp.1]})
                        })
                        .collect::<Vec<_>>()
                });
                let local_follow = regex
                    .and_then(|r| sema.left_rec_local_follow_sets.get(&r.syntax()));
                rules.push(json!({
                    "name": rule.name(&cst).map(|n| n.0),
                    "s": [span.start, span.end],
                    "elided": rule.is_elided(&cst),
                    "regex": regex.map(|r| { let s = r.span(&cst); vec![s.start, s.end] }),
                    "used": sema.used.contains(&rule.syntax()),
                    "in_choice": sema.used_in_ordered_choice.contains(&rule.syntax()),
                    "recursive": rec,
                    "local_follow": set_json(local_follow),
                    "has_rename": sema.has_rule_rename.contains(&rule),
                    "has_creation": sema.has_rule_creation.contains(&rule),
                }));
            }
        }
    }
    let mut right: Vec<&str> = sema.right_associative.iter().copied().collect();
    right.sort();
    json!({
        "n_syntax": n_syntax,
        "diags": diags.iter().map(diag_json).collect::<Vec<_>>(),
        "nodes": nodes,
        "rules": rules,
        "start": sema.start_rule.and_then(|r| r.name(&cst)).map(|n| n.0),
        "parts": sema.parts.iter().filter_map(|r| r.name(&cst)).map(|n| n.0).collect::<Vec<_>>(),
        "skipped": sema.skipped.iter().filter_map(|t| t.name(&cst)).map(|n| n.0).collect::<Vec<_>>(),
        "right": right,
    })
}

fn regex_json(cst: &Cst<'_>, r: ast::Regex) -> Value {
    use ast::Regex as R;
    let ops = |it: Vec<ast::Regex>| Value::Array(it.into_iter().map(|o| regex_json(cst, o)).collect());
    match r {
        R::OrderedChoice(x) => json!(["choice", ops(x.operands(cst).collect())]),
        R::Alternation(x) => json!(["alt", ops(x.operands(cst).collect())]),
        R::Concat(x) => json!(["concat", ops(x.operands(cst).collect())]),
        R::Paren(x) => json!(["paren", x.inner(cst).map(|i| regex_json(cst, i))]),
        R::Optional(x) => json!(["opt", x.operand(cst).map(|i| regex_json(cst, i))]),
        R::Star(x) => json!(["star", x.operand(cst).map(|i| regex_json(cst, i))]),
        R::Plus(x) => json!(["plus", x.operand(cst).map(|i| regex_json(cst, i))]),
        R::Name(x) => json!(["name", x.value(cst).map(|v| v.0)]),
        R::Symbol(x) => json!(["sym", x.value(cst).map(|v| v.0)]),
        R::Predicate(x) => json!(["pred", x.value(cst).map(|v| v.0), x.is_true(cst)]),
        R::Action(x) => json!(["action", x.value(cst).map(|v| v.0)]),
        R::Assertion(x) => json!(["assert", x.value(cst).map(|v| v.0)]),
        R::NodeRename(x) => json!(["rename", x.value(cst).map(|v| v.0)]),
        R::NodeElision(_) => json!(["elide"]),
        R::NodeMarker(x) => json!(["marker", x.value(cst).map(|v| v.0), x.number(cst)]),
        R::NodeCreation(x) => json!(["create", x.value(cst).map(|v| v.0), x.number(cst), x.node_name(cst), x.whole_rule(cst)]),
        R::Commit(_) => json!(["commit"]),
        R::Return(_) => json!(["return"]),
    }
}

fn ast_cmd(text: &str) -> Value {
    let mut diags = vec![];
    let cst = Parser::new(text, &mut diags).parse(&mut diags);
    let mut decls = vec![];
    if let Some(file) = ast::File::cast(&cst, NodeRef::ROOT) {
        for c in cst.children(file.syntax()) {
            if cst.match_rule(c, Rule::TokenList) {
                let toks: Vec<Value> = cst
                    .children(c)
                    .filter_map(|t| ast::TokenDecl::cast(&cst, t))
                    .map(|t| json!([t.name(&cst).map(|n| n.0), t.symbol(&cst).map(|n| n.0)]))
                    .collect();
                decls.push(json!(["token", toks]));
                continue;
            }
            match ast::Decl::cast(&cst, c) {
                Some(ast::Decl::RuleDecl(r)) => decls.push(json!([
                    "rule",
                    r.name(&cst).map(|n| n.0),
                    r.is_elided(&cst),
                    r.regex(&cst).map(|x| regex_json(&cst, x))
                ])),
                Some(ast::Decl::StartDecl(s)) => {
                    decls.push(json!(["start", s.rule_name(&cst).map(|n| n.0)]))
                }
                Some(ast::Decl::RightDecl(d)) => {
                    let mut v = vec![];
                    d.token_names(&cst, |n| v.push(n.0.to_string()));
                    decls.push(json!(["right", v]));
                }
                Some(ast::Decl::SkipDecl(d)) => {
                    let mut v = vec![];
                    d.token_names(&cst, |n| v.push(n.0.to_string()));
                    decls.push(json!(["skip", v]));
                }
                Some(ast::Decl::PartDecl(d)) => {
                    let mut v = vec![];
                    d.rule_names(&cst, |n| v.push(n.0.to_string()));
                    decls.push(json!(["part", v]));
                }
                Some(ast::Decl::TokenDecl(_)) | None => {}
            }
        }
    }
    json!({
        "diags": diags.iter().map(diag_json).collect::<Vec<_>>(),
        "decls": decls,
    })
}

/// Label-range and renderability check shared by `front` and the enumerator.
pub fn check_diag_spans(text: &str, diags: &[Diagnostic]) -> Vec<String> {
    let mut bad = vec![];
    for (i, d) in diags.iter().enumerate() {
        for l in d.labels.iter() {
            let (s, e) = (l.range.start, l.range.end);
            if s > e {
                bad.push(format!("diag {i} [{:?}] label {s}..{e}: start > end", d.code));
            } else if e > text.len() {
                bad.push(format!("diag {i} [{:?}] label {s}..{e}: end > len {}", d.code, text.len()));
            } else if !text.is_char_boundary(s) || !text.is_char_boundary(e) {
                bad.push(format!("diag {i} [{:?}] label {s}..{e}: not on char boundary", d.code));
            }
        }
    }
    bad
}

pub fn emit_all(text: &str, diags: &[Diagnostic]) -> Result<(), String> {
    let file = SimpleFile::new("g.llw", text);
    let config = codespan_reporting::term::Config::default();
    let mut writer = NoColor::new(Vec::new());
    for d in diags {
        codespan_reporting::term::emit_to_write_style(&mut writer, &config, &file, d)
            .map_err(|e| format!("{e}"))?;
    }
    Ok(())
}

pub struct FrontObs {
    pub n_diags: usize,
    pub n_syntax: usize,
    pub n_err: usize,
    pub bad_spans: Vec<String>,
    pub emit_err: Option<String>,
}

pub fn front_obs(text: &str) -> Result<FrontObs, Value> {
    guarded(|| {
        let mut diags = vec![];
        let cst = Parser::new(text, &mut diags).parse(&mut diags);
        let n_syntax = diags.len();
        let _sema = SemanticPass::run(&cst, &mut diags);
        let bad_spans = check_diag_spans(text, &diags);
        let emit_err = if bad_spans.is_empty() {
            match guarded(|| emit_all(text, &diags)) {
                Ok(Ok(())) => None,
                Ok(Err(e)) => Some(e),
                Err(p) => Some(format!("panic in emit: {p}")),
            }
        } else {
            None
        };
        FrontObs {
            n_diags: diags.len(),
            n_syntax,
            n_err: diags.iter().filter(|d| d.severity == Severity::Error).count(),
            bad_spans,
            emit_err,
        }
    })
}

fn front_cmd(text: &str) -> Value {
    match front_obs(text) {
        Ok(o) => json!({"panic": null, "n_diags": o.n_diags, "n_syntax": o.n_syntax, "n_err": o.n_err,
                        "bad_spans": o.bad_spans, "emit_err": o.emit_err}),
        Err(p) => json!({"panic": p}),
    }
}

fn non_ws(s: &str) -> String {
    s.chars().filter(|c| !c.is_whitespace()).collect()
}

fn lex_seq(text: &str) -> Vec<(String, String)> {
    let mut d = vec![];
    let (toks, spans) = lexer::tokenize(text, &mut d);
    toks.iter()
        .zip(spans.iter())
        .filter(|(t, _)| !matches!(t, lexer::Token::Whitespace))
        .map(|(t, s)| {
            let mut txt = text[s.clone()].to_string();
            if matches!(t, lexer::Token::LineComment | lexer::Token::DocComment) {
                // trailing newline / trailing blanks of a line comment are layout, not content
                txt = txt.trim_end().to_string();
            }
            if matches!(t, lexer::Token::BlockComment) {
                // CR before LF inside a block comment is layout, not content
                txt = txt.replace("\r\n", "\n");
            }
            (format!("{t:?}"), txt)
        })
        .collect()
}

fn sema_sig(text: &str, diags: &[Diagnostic]) -> Vec<(String, String, String)> {
    let mut v: Vec<_> = diags
        .iter()
        .map(|d| {
            let quoted = d
                .labels
                .iter()
                .find(|l| l.style == LabelStyle::Primary)
                .map(|l| non_ws(text.get(l.range.clone()).unwrap_or("<bad range>")))
                .unwrap_or_default();
            (
                d.code.clone().unwrap_or_default(),
                d.message.clone(),
                quoted,
            )
        })
        .collect();
    v.sort();
    v
}

pub struct FormatObs {
    pub syntax_ok: bool,
    pub out: String,
    pub problems: Vec<String>,
    pub idempotent: Option<bool>,
    pub out2: Option<String>,
}

/// C17/C18 observation of `format` on one text (all comparisons are plain
/// equality of two observations of the real code).
pub fn format_obs(text: &str) -> Result<FormatObs, Value> {
    guarded(|| {
        let mut diags = vec![];
        let cst = Parser::new(text, &mut diags).parse(&mut diags);
        let syntax_ok = diags.is_empty();
        let out = lelwel::backend::format::format(&cst);
        let mut problems = vec![];
        if non_ws(text) != non_ws(&out) {
            problems.push("non-whitespace character sequence changed".to_string());
        }
        let mut idempotent = None;
        let mut out2 = None;
        if syntax_ok {
            if lex_seq(text) != lex_seq(&out) {
                problems.push("token/comment sequence changed".to_string());
            }
            let mut d2 = vec![];
            let cst2 = Parser::new(&out, &mut d2).parse(&mut d2);
            if !d2.is_empty() {
                problems.push(format!("formatted output has {} syntax diagnostics", d2.len()));
            } else {
                let mut s1 = vec![];
                let _ = SemanticPass::run(&cst, &mut s1);
                let mut s2 = vec![];
                let _ = SemanticPass::run(&cst2, &mut s2);
                if sema_sig(text, &s1) != sema_sig(&out, &s2) {
                    problems.push("semantic diagnostics differ after formatting".to_string());
                }
            }
            let o2 = lelwel::backend::format::format(&cst2);
            idempotent = Some(o2 == out);
            if o2 != out {
                out2 = Some(o2);
            }
        }
        FormatObs { syntax_ok, out, problems, idempotent, out2 }
    })
}

fn format_cmd(text: &str) -> Value {
    match format_obs(text) {
        Ok(o) => json!({"panic": null, "syntax_ok": o.syntax_ok, "out": o.out, "problems": o.problems,
                        "idempotent": o.idempotent, "out2": o.out2}),
        Err(p) => json!({"panic": p}),
    }
}

fn handle(req: &Value) -> Value {
    let cmd = req["cmd"].as_str().unwrap_or("");
    let text = req["text"].as_str().unwrap_or("");
    let mut rep = match cmd {
        "sema" => match guarded(|| sema_cmd(text, true)) {
            Ok(v) => v,
            Err(p) => json!({"panic": p}),
        },
        "diags" => match guarded(|| sema_cmd(text, false)) {
            Ok(v) => v,
            Err(p) => json!({"panic": p}),
        },
        "ast" => match guarded(|| ast_cmd(text)) {
            Ok(v) => v,
            Err(p) => json!({"panic": p}),
        },
        "front" => front_cmd(text),
        "format" => format_cmd(text),
        "lsp" => lsp::session(req),
        "ping" => json!({"pong": true, "debug_assertions": cfg!(debug_assertions)}),
        _ => json!({"error": format!("unknown cmd {cmd}")}),
    };
    if let Some(obj) = rep.as_object_mut() {
        obj.insert("id".into(), req["id"].clone());
    }
    rep
}

fn main() {
    install_hook();
    let args: Vec<String> = std::env::args().collect();
    match args.get(1).map(|s| s.as_str()) {
        Some("serve") => {
            let stdin = std::io::stdin();
            let stdout = std::io::stdout();
            for line in stdin.lock().lines() {
                let Ok(line) = line else { break };
                if line.trim().is_empty() {
                    continue;
                }
                let req: Value = match serde_json::from_str(&line) {
                    Ok(v) => v,
                    Err(e) => json!({"cmd": "bad", "error": e.to_string()}),
                };
                let rep = handle(&req);
                let mut out = stdout.lock();
                serde_json::to_writer(&mut out, &rep).unwrap();
                out.write_all(b"\n").unwrap();
                out.flush().unwrap();
            }
        }
        Some("enum") => textenum::run(&args[2]),
        _ => {
            eprintln!("usage: vprobe serve | enum <spec.json>");
            std::process::exit(2);
        }
    }
}
