//! Bulk T-text runner: exhaustive item sequences or a list of texts, observed
//! with the front-end monitor (C12) and/or the formatter monitor (C17/C18).
//! Only anomalies and counters are written, so millions of texts are cheap.

use crate::{format_obs, front_obs};
use serde_json::{Value, json};
use std::collections::BTreeMap;
use std::io::Write;

struct Stats {
    total: u64,
    with_diags: u64,
    with_syntax_diag: u64,
    syntax_ok: u64,
    fmt_run: u64,
    fmt_idem_checked: u64,
    with_comment_or_nl: u64,
    panics: BTreeMap<String, u64>,
    anomalies: u64,
    samples: Vec<String>,
}

fn emit(out: &mut impl Write, v: Value) {
    serde_json::to_writer(&mut *out, &v).unwrap();
    out.write_all(b"\n").unwrap();
}

fn observe(text: &str, mode: &str, st: &mut Stats, out: &mut impl Write, max_per_loc: u64) {
    st.total += 1;
    if st.samples.len() < 5 && st.total % 997 == 1 {
        st.samples.push(text.to_string());
    }
    if mode == "front" || mode == "both" {
        match front_obs(text) {
            Ok(o) => {
                if o.n_diags > 0 {
                    st.with_diags += 1;
                }
                if o.n_syntax > 0 {
                    st.with_syntax_diag += 1;
                }
                if !o.bad_spans.is_empty() {
                    st.anomalies += 1;
                    emit(out, json!({"kind": "bad_span", "text": text, "detail": o.bad_spans}));
                }
                if let Some(e) = o.emit_err {
                    st.anomalies += 1;
                    emit(out, json!({"kind": "emit", "text": text, "detail": e}));
                }
            }
            Err(p) => {
                let key = format!("front|{}", p["loc"].as_str().unwrap_or(""));
                let n = st.panics.entry(key).or_insert(0);
                *n += 1;
                if *n <= max_per_loc {
                    emit(out, json!({"kind": "panic", "where": "front", "text": text, "panic": p}));
                }
            }
        }
    }
    if mode == "format" || mode == "both" {
        st.fmt_run += 1;
        if text.contains("//") || text.contains("/*") || text.trim().contains('\n') {
            st.with_comment_or_nl += 1;
        }
        match format_obs(text) {
            Ok(o) => {
                if o.syntax_ok {
                    st.syntax_ok += 1;
                }
                if !o.problems.is_empty() {
                    st.anomalies += 1;
                    emit(out, json!({"kind": "fmt_problem", "text": text, "detail": o.problems, "out": o.out}));
                }
                if let Some(idem) = o.idempotent {
                    st.fmt_idem_checked += 1;
                    if !idem {
                        st.anomalies += 1;
                        emit(out, json!({"kind": "nonidem", "text": text, "out": o.out, "out2": o.out2}));
                    }
                }
            }
            Err(p) => {
                let key = format!("format|{}", p["loc"].as_str().unwrap_or(""));
                let n = st.panics.entry(key).or_insert(0);
                *n += 1;
                if *n <= max_per_loc {
                    emit(out, json!({"kind": "panic", "where": "format", "text": text, "panic": p}));
                }
            }
        }
    }
}

pub fn run(spec_path: &str) {
    let spec: Value =
        serde_json::from_str(&std::fs::read_to_string(spec_path).expect("spec")).expect("json");
    let mode = spec["mode"].as_str().unwrap_or("front").to_string();
    let shard = spec["shard"].as_u64().unwrap_or(0);
    let nshards = spec["nshards"].as_u64().unwrap_or(1).max(1);
    let max_per_loc = spec["max_per_loc"].as_u64().unwrap_or(3);
    let stdout = std::io::stdout();
    let mut out = std::io::BufWriter::new(stdout.lock());
    let mut st = Stats {
        total: 0,
        with_diags: 0,
        with_syntax_diag: 0,
        syntax_ok: 0,
        fmt_run: 0,
        fmt_idem_checked: 0,
        with_comment_or_nl: 0,
        panics: BTreeMap::new(),
        anomalies: 0,
        samples: vec![],
    };
    if let Some(path) = spec["texts_file"].as_str() {
        // one JSON string per line
        let data = std::fs::read_to_string(path).expect("texts_file");
        for (i, line) in data.lines().enumerate() {
            if (i as u64) % nshards != shard || line.is_empty() {
                continue;
            }
            if let Ok(Value::String(text)) = serde_json::from_str::<Value>(line) {
                observe(&text, &mode, &mut st, &mut out, max_per_loc);
            }
        }
    } else {
        let items: Vec<String> = spec["items"]
            .as_array()
            .expect("items")
            .iter()
            .map(|v| v.as_str().unwrap().to_string())
            .collect();
        let sep = spec["sep"].as_str().unwrap_or(" ").to_string();
        let prefix = spec["prefix"].as_str().unwrap_or("").to_string();
        let suffix = spec["suffix"].as_str().unwrap_or("").to_string();
        let max_len = spec["max_len"].as_u64().unwrap_or(3) as usize;
        let n = items.len();
        let mut counter: u64 = 0;
        for len in 0..=max_len {
            let mut idx = vec![0usize; len];
            'outer: loop {
                if counter % nshards == shard {
                    let mut text = prefix.clone();
                    for (k, i) in idx.iter().enumerate() {
                        if k > 0 {
                            text.push_str(&sep);
                        }
                        text.push_str(&items[*i]);
                    }
                    text.push_str(&suffix);
                    observe(&text, &mode, &mut st, &mut out, max_per_loc);
                }
                counter += 1;
                // next index vector
                let mut k = len;
                loop {
                    if k == 0 {
                        break 'outer;
                    }
                    k -= 1;
                    idx[k] += 1;
                    if idx[k] < n {
                        break;
                    }
                    idx[k] = 0;
                }
                if len == 0 {
                    break;
                }
            }
        }
    }
    emit(
        &mut out,
        json!({
            "kind": "summary",
            "total": st.total,
            "with_diags": st.with_diags,
            "with_syntax_diag": st.with_syntax_diag,
            "syntax_ok": st.syntax_ok,
            "fmt_run": st.fmt_run,
            "fmt_idem_checked": st.fmt_idem_checked,
            "with_comment_or_nl": st.with_comment_or_nl,
            "panics": st.panics,
            "anomalies": st.anomalies,
            "samples": st.samples,
            "debug_assertions": cfg!(debug_assertions),
        }),
    );
    out.flush().unwrap();
}
