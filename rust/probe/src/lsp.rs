//! In-process driver of `lelwel::ide::Cache` (C20): executes a session script
//! and records, per operation, the reply or the panic.

use crate::guarded;
use lelwel::ide::Cache;
use lsp_types::{Position, Url};
use serde_json::{Value, json};
use std::sync::mpsc;
use std::time::Duration;

fn pos(op: &Value) -> Position {
    Position::new(
        op["line"].as_u64().unwrap_or(0) as u32,
        op["ch"].as_u64().unwrap_or(0) as u32,
    )
}

fn run_ops(ops: Vec<Value>, tx: mpsc::Sender<Value>) {
    crate::install_hook();
    let mut cache = Cache::default();
    for op in ops {
        let kind = op["op"].as_str().unwrap_or("").to_string();
        let uri = match Url::parse(op["uri"].as_str().unwrap_or("file:///x.llw")) {
            Ok(u) => u,
            Err(e) => {
                let _ = tx.send(json!({"op": kind, "error": format!("bad uri: {e}")}));
                continue;
            }
        };
        let res = guarded(|| match kind.as_str() {
            "open" | "change" => {
                // exactly what the server's didOpen/didChange handlers do
                cache.invalidate(&uri);
                cache.analyze(uri.clone(), op["text"].as_str().unwrap_or("").to_string());
                let d = cache.get_diagnostics(&uri);
                serde_json::to_value(d).unwrap()
            }
            "close" => {
                cache.invalidate(&uri);
                Value::Null
            }
            "hover" => {
                let r = cache.hover(&uri, pos(&op));
                match r {
                    Some((msg, range)) => json!({"msg": msg, "range": serde_json::to_value(range).unwrap()}),
                    None => Value::Null,
                }
            }
            "definition" => serde_json::to_value(cache.goto_definition(&uri, pos(&op))).unwrap(),
            "references" => serde_json::to_value(cache.references(
                &uri,
                pos(&op),
                op["with_def"].as_bool().unwrap_or(false),
            ))
            .unwrap(),
            "completion" => {
                let p = pos(&op);
                let params: lsp_types::CompletionParams = serde_json::from_value(json!({
                    "textDocument": {"uri": uri.as_str()},
                    "position": {"line": p.line, "character": p.character},
                }))
                .unwrap();
                serde_json::to_value(cache.completion(params)).unwrap()
            }
            "formatting" => {
                let params: lsp_types::DocumentFormattingParams = serde_json::from_value(json!({
                    "textDocument": {"uri": uri.as_str()},
                    "options": {"tabSize": 2, "insertSpaces": true},
                }))
                .unwrap();
                serde_json::to_value(cache.formatting(params)).unwrap()
            }
            other => json!({"error": format!("unknown op {other}")}),
        });
        let rep = match res {
            Ok(v) => json!({"op": kind, "ok": v}),
            Err(p) => json!({"op": kind, "panic": p}),
        };
        if tx.send(rep).is_err() {
            return;
        }
    }
}

pub fn session(req: &Value) -> Value {
    let ops: Vec<Value> = req["ops"].as_array().cloned().unwrap_or_default();
    let n = ops.len();
    let per_op_ms = req["per_op_ms"].as_u64().unwrap_or(20_000);
    crate::PANIC_LOG.lock().unwrap().clear();
    let (tx, rx) = mpsc::channel();
    let handle = std::thread::spawn(move || run_ops(ops, tx));
    let mut results = vec![];
    let mut hang = false;
    for _ in 0..n {
        match rx.recv_timeout(Duration::from_millis(per_op_ms)) {
            Ok(v) => results.push(v),
            Err(mpsc::RecvTimeoutError::Timeout) => {
                hang = true;
                break;
            }
            Err(mpsc::RecvTimeoutError::Disconnected) => break,
        }
    }
    if !hang {
        let _ = handle.join();
    }
    let thread_panics: Vec<Value> = crate::PANIC_LOG
        .lock()
        .unwrap()
        .drain(..)
        .map(|(m, l)| json!({"msg": m, "loc": l}))
        .collect();
    json!({"results": results, "hang": hang, "thread_panics": thread_panics})
}
