// Builder lab (C02, and the builder half of C01 / C08): drives the tree builder `CstData` that lelwel emits
// through well-nested histories of open / close / advance / mark / insert-before-mark / truncate and compares
// the tree read back through the public API (children / get / span) with an explicit reference tree.
//
// The builder's method names are private implementation detail of the emitted parser: if this file stops
// compiling after a refactoring, the check reports INCONCLUSIVE (builder-api-changed), never a violation.
#![allow(clippy::all)]
#![allow(unused_variables, unused_mut, unreachable_patterns, non_camel_case_types, dead_code, unused_parens, unused_macros)]

#[allow(clippy::upper_case_acronyms)]
#[derive(Debug, PartialEq, Eq, Hash, Copy, Clone)]
pub enum Token { EOF, A, Ws, Error }

pub struct Diag;
include!(env!("LAB_GENERATED"));

impl<'a> ParserCallbacks<'a> for Parser<'a> {
    type Diagnostic = Diag;
    type Context = ();
    fn create_tokens(_c: &mut (), _s: &'a str, _d: &mut Vec<Diag>) -> (Vec<Token>, Vec<Span>) { (vec![], vec![]) }
    fn create_diagnostic(&self, _span: Span, _m: String) -> Diag { Diag }
}

const KINDS: [Rule; 4] = [Rule::K1, Rule::K2, Rule::K3, Rule::Error];
const NTOK: usize = 96;

#[derive(Clone, Copy, Debug, PartialEq, Eq)]
enum Op {
    Lead(u8),          // leading trivia (only as first operation): what init_skip does
    Open(u8),          // open a node of kind k
    Close,             // close the innermost open node
    Tok(u8),           // consume a token followed by n skipped tokens (what advance does)
    Mark,              // remember the current position
    Wrap(u8, u8),      // insert a node of kind k before mark #m and close it at once (node creation)
    WrapOpen(u8, u8),  // insert a node before mark #m and leave it open (left-recursive rules, conditional elision)
    Snap,              // ordered-choice attempt begins: remember the state
    Trunc,             // the attempt is abandoned: restore
    Commit,            // the attempt succeeded / committed: forget the snapshot
}

// ---- reference: a list of items with explicit open / close markers -------------------------------------
#[derive(Clone, Debug, PartialEq)]
enum Item { Open(u32, u8), Close(u32), Tok(usize, bool) }

#[derive(Clone)]
struct RefMark { pos: usize, depth: usize, frame: u32, alive: bool }

struct Frame { id: u32, kind: u8, cst: MarkOpened }

struct Snapshot { items: Vec<Item>, depth: usize, frames: Vec<u32>, marks: Vec<RefMark>, tok: usize, cst: MarkTruncation, ncst_marks: usize }

enum Stop { NotEnabled, Mismatch(String) }

fn span_table() -> Vec<Span> {
    let mut v = vec![];
    let mut p = 0;
    for i in 0..NTOK {
        let w = 1 + (i * 7 % 3);
        v.push(p..p + w);
        p += w;
    }
    v
}

struct Built { dump: String, spans: Vec<(usize, usize)>, toks: Vec<usize> }

/// executes a history on the real builder and on the reference; then closes everything and compares
fn run(history: &[Op], stats: &mut Stats) -> Result<(), Stop> {
    let spans = span_table();
    let mut data = CstData::new(spans.clone());
    let mut items: Vec<Item> = vec![];
    let mut frames: Vec<Frame> = vec![];
    let mut marks: Vec<RefMark> = vec![];
    let mut cst_marks: Vec<MarkClosed> = vec![];
    let mut snap: Option<Snapshot> = None;
    let mut next_id = 1u32;
    let mut tok = 0usize;
    // root
    let root = data.open();
    items.push(Item::Open(0, 255));
    frames.push(Frame { id: 0, kind: 255, cst: root });
    let mut used_wrap = false;
    let mut used_trunc = false;
    for (i, op) in history.iter().enumerate() {
        match *op {
            Op::Lead(n) => {
                if i != 0 { return Err(Stop::NotEnabled); }
                for _ in 0..n {
                    if tok >= NTOK { return Err(Stop::NotEnabled); }
                    data.advance(Token::Ws, true);
                    items.push(Item::Tok(tok, true));
                    tok += 1;
                }
            }
            Op::Open(k) => {
                let m = data.open();
                items.push(Item::Open(next_id, k));
                frames.push(Frame { id: next_id, kind: k, cst: m });
                next_id += 1;
            }
            Op::Close => {
                if frames.len() <= 1 { return Err(Stop::NotEnabled); }
                if let Some(s) = &snap {
                    // a node that was open when the attempt began stays open until the attempt is over
                    if frames.len() <= s.depth { return Err(Stop::NotEnabled); }
                }
                let f = frames.pop().unwrap();
                data.close(f.cst, KINDS[f.kind as usize]);
                ref_close(&mut items, f.id);
                for m in marks.iter_mut() {
                    if m.depth > frames.len() { m.alive = false; }
                }
            }
            Op::Tok(n) => {
                if tok + 1 + n as usize > NTOK { return Err(Stop::NotEnabled); }
                data.advance(Token::A, false);
                items.push(Item::Tok(tok, false));
                tok += 1;
                for _ in 0..n {
                    data.advance(if tok % 2 == 0 { Token::Ws } else { Token::Error }, true);
                    items.push(Item::Tok(tok, true));
                    tok += 1;
                }
            }
            Op::Mark => {
                if marks.len() >= 4 { return Err(Stop::NotEnabled); }
                marks.push(RefMark { pos: items.len(), depth: frames.len(), frame: frames.last().unwrap().id, alive: true });
                cst_marks.push(data.mark());
            }
            Op::Wrap(mi, k) | Op::WrapOpen(mi, k) => {
                let mi = mi as usize;
                if mi >= marks.len() { return Err(Stop::NotEnabled); }
                let m = marks[mi].clone();
                // usable in the rule body that took it: same nesting depth, same enclosing node, not behind an
                // insertion at an earlier position (stale mark: outside this lab, see known finding F2)
                if !m.alive || m.depth != frames.len() || m.frame != frames.last().unwrap().id { return Err(Stop::NotEnabled); }
                if let Some(s) = &snap {
                    // insertion in front of what the attempt began with cannot be undone (known finding F15)
                    if m.pos < s.items.len() { return Err(Stop::NotEnabled); }
                }
                let opened = data.open_before(cst_marks[mi]);
                items.insert(m.pos, Item::Open(next_id, k));
                for (j, o) in marks.iter_mut().enumerate() {
                    if o.pos > m.pos { o.alive = false; }
                }
                used_wrap = true;
                if let Op::Wrap(..) = *op {
                    data.close(opened, KINDS[k as usize]);
                    ref_close(&mut items, next_id);
                } else {
                    frames.push(Frame { id: next_id, kind: k, cst: opened });
                }
                next_id += 1;
            }
            Op::Snap => {
                if snap.is_some() { return Err(Stop::NotEnabled); }
                snap = Some(Snapshot { items: items.clone(), depth: frames.len(), frames: frames.iter().map(|f| f.id).collect(), marks: marks.clone(), tok, cst: data.mark_truncation(), ncst_marks: cst_marks.len() });
            }
            Op::Trunc => {
                let Some(s) = snap.take() else { return Err(Stop::NotEnabled); };
                data.truncate(s.cst.clone());
                items = s.items;
                frames.truncate(s.depth);
                marks = s.marks;
                cst_marks.truncate(s.ncst_marks);
                tok = s.tok;
                used_trunc = true;
            }
            Op::Commit => {
                if snap.take().is_none() { return Err(Stop::NotEnabled); }
            }
        }
    }
    // an attempt that is still running at the end is committed; close what is open
    while frames.len() > 1 {
        let f = frames.pop().unwrap();
        data.close(f.cst, KINDS[f.kind as usize]);
        ref_close(&mut items, f.id);
    }
    let f = frames.pop().unwrap();
    data.close_root(f.cst, Rule::K0);
    items.push(Item::Close(0));
    // ---- compare ---------------------------------------------------------------------------------------
    let want = build_ref(&items, &spans);
    let got = std::panic::catch_unwind(std::panic::AssertUnwindSafe(|| read_back(&data, tok)));
    stats.histories += 1;
    if used_wrap { stats.with_insert += 1; }
    if used_trunc { stats.with_truncate += 1; }
    let got = match got {
        Ok(g) => g,
        Err(_) => return Err(Stop::Mismatch(format!("reading the tree back through children/get/span panics; expected {}", want.dump))),
    };
    stats.nodes += want.spans.len() as u64;
    if got.toks != want.toks {
        return Err(Stop::Mismatch(format!("C01 token sequence of the walk {:?} != consumed tokens {:?}", got.toks, want.toks)));
    }
    if got.dump != want.dump {
        return Err(Stop::Mismatch(format!("C02 tree {} != reference {}", got.dump, want.dump)));
    }
    if got.spans != want.spans {
        return Err(Stop::Mismatch(format!("C02 spans {:?} != reference {:?} for tree {}", got.spans, want.spans, want.dump)));
    }
    Ok(())
}

/// closing hoists trailing skipped tokens out of the node
fn ref_close(items: &mut Vec<Item>, id: u32) {
    let mut p = items.len();
    while p > 0 {
        match items[p - 1] {
            Item::Tok(_, true) => p -= 1,
            _ => break,
        }
    }
    items.insert(p, Item::Close(id));
}

fn build_ref(items: &[Item], spans: &[Span]) -> Built {
    // pre-order: dump + span of every rule node and token
    let mut dump = String::new();
    let mut out_spans = vec![];
    let mut toks = vec![];
    // compute spans: for each Open find matching Close
    let mut stack: Vec<(usize, usize)> = vec![]; // (index into out_spans, first token seen?)
    let mut last_end = 0usize;
    let mut first_tok: Vec<Option<usize>> = vec![];
    let mut last_tok: Vec<Option<usize>> = vec![];
    let mut before: Vec<usize> = vec![];
    let mut open_idx: Vec<usize> = vec![];
    for it in items {
        match it {
            Item::Open(_, k) => {
                dump.push('(');
                dump.push_str(&format!("{}", if *k == 255 { "k0".to_string() } else { format!("{:?}", KINDS[*k as usize]) }));
                dump.push(' ');
                open_idx.push(out_spans.len());
                out_spans.push((0, 0));
                first_tok.push(None);
                last_tok.push(None);
                before.push(last_end);
            }
            Item::Close(_) => {
                if dump.ends_with(' ') { dump.pop(); }
                dump.push_str(") ");
                let oi = open_idx.pop().unwrap();
                let (f, l, b) = (first_tok.pop().unwrap(), last_tok.pop().unwrap(), before.pop().unwrap());
                out_spans[oi] = match (f, l) {
                    (Some(f), Some(l)) => (spans[f].start, spans[l].end),
                    _ => (b, b),
                };
                // propagate to parent
                if let (Some(pf), Some(f)) = (first_tok.last_mut(), f) {
                    if pf.is_none() { *pf = Some(f); }
                }
                if let (Some(pl), Some(l)) = (last_tok.last_mut(), l) {
                    *pl = Some(l);
                }
            }
            Item::Tok(i, triv) => {
                dump.push_str(&format!("{}{} ", if *triv { "t" } else { "T" }, i));
                out_spans.push((spans[*i].start, spans[*i].end));
                toks.push(*i);
                last_end = spans[*i].end;
                if let Some(f) = first_tok.last_mut() {
                    if f.is_none() { *f = Some(*i); }
                }
                if let Some(l) = last_tok.last_mut() {
                    *l = Some(*i);
                }
            }
        }
    }
    Built { dump: dump.trim_end().to_string(), spans: out_spans, toks }
}

fn read_back(data: &CstData, ntok: usize) -> Built {
    let mut b = Built { dump: String::new(), spans: vec![], toks: vec![] };
    fn walk(data: &CstData, n: NodeRef, b: &mut Built, depth: usize) {
        if depth > 10_000 { panic!("depth"); }
        let sp = data.span(n);
        b.spans.push((sp.start, sp.end));
        match data.get(n) {
            Node::Rule(r, _) => {
                b.dump.push('(');
                b.dump.push_str(&format!("{r:?} "));
                for c in data.children(n) {
                    walk(data, c, b, depth + 1);
                }
                if b.dump.ends_with(' ') { b.dump.pop(); }
                b.dump.push_str(") ");
            }
            Node::Token(t, idx) => {
                let i = usize::from(idx);
                b.dump.push_str(&format!("{}{} ", if t == Token::A { "T" } else { "t" }, i));
                b.toks.push(i);
            }
        }
    }
    walk(data, NodeRef::ROOT, &mut b, 0);
    b.dump = b.dump.trim_end().to_string();
    b
}

#[derive(Default)]
struct Stats { histories: u64, with_insert: u64, with_truncate: u64, nodes: u64, not_enabled: u64, mismatches: Vec<(String, String)> }

fn alphabet() -> Vec<Op> {
    let mut v = vec![Op::Close, Op::Mark, Op::Snap, Op::Trunc, Op::Commit];
    for k in 0..3 { v.push(Op::Open(k)); }
    v.push(Op::Open(3));
    for n in 0..3 { v.push(Op::Tok(n)); }
    for m in 0..3 { v.push(Op::Wrap(m, m % 3)); v.push(Op::WrapOpen(m, (m + 1) % 3)); }
    v
}

fn record(stats: &mut Stats, h: &[Op], msg: String) {
    if stats.mismatches.len() < 5 {
        stats.mismatches.push((format!("{h:?}"), msg));
    }
}

fn dfs(h: &mut Vec<Op>, max: usize, alpha: &[Op], stats: &mut Stats) {
    match run(h, stats) {
        Err(Stop::NotEnabled) => { stats.not_enabled += 1; return; }
        Err(Stop::Mismatch(m)) => { record(stats, h, m); return; }
        Ok(()) => {}
    }
    if h.len() >= max { return; }
    for op in alpha {
        h.push(*op);
        dfs(h, max, alpha, stats);
        h.pop();
    }
}

struct Rng(u64);
impl Rng {
    fn next(&mut self) -> u64 { let mut x = self.0; x ^= x >> 12; x ^= x << 25; x ^= x >> 27; self.0 = x; x.wrapping_mul(0x2545F4914F6CDD1D) }
    fn below(&mut self, n: usize) -> usize { (self.next() >> 33) as usize % n }
}

fn random_histories(seed: u64, count: u64, maxlen: usize, alpha: &[Op], stats: &mut Stats) {
    let mut rng = Rng(seed | 1);
    for _ in 0..count {
        let len = 4 + rng.below(maxlen - 3);
        let mut h: Vec<Op> = vec![];
        if rng.below(3) == 0 { h.push(Op::Lead(1 + rng.below(2) as u8)); }
        let mut tries = 0;
        while h.len() < len && tries < len * 6 {
            tries += 1;
            // bias: tokens and opens are frequent, snapshots rare
            let op = match rng.below(10) {
                0..=2 => Op::Tok(rng.below(3) as u8),
                3 => Op::Open(rng.below(4) as u8),
                4 => Op::Close,
                5 => Op::Mark,
                6 => Op::Wrap(rng.below(4) as u8, rng.below(3) as u8),
                7 => Op::WrapOpen(rng.below(4) as u8, rng.below(3) as u8),
                _ => alpha[rng.below(alpha.len())],
            };
            h.push(op);
            let mut dummy = Stats::default();
            match run(&h, &mut dummy) {
                Err(Stop::NotEnabled) => { h.pop(); }
                Err(Stop::Mismatch(m)) => { record(stats, &h, m); break; }
                Ok(()) => {}
            }
        }
        let _ = run(&h, stats).map_err(|e| if let Stop::Mismatch(m) = e { record(stats, &h, m) });
    }
}

fn main() {
    let args: Vec<String> = std::env::args().collect();
    let max: usize = args.get(1).and_then(|s| s.parse().ok()).unwrap_or(5);
    let nrand: u64 = args.get(2).and_then(|s| s.parse().ok()).unwrap_or(1000);
    let seed: u64 = args.get(3).and_then(|s| s.parse().ok()).unwrap_or(1);
    let shard: usize = args.get(4).and_then(|s| s.parse().ok()).unwrap_or(0);
    let nshards: usize = args.get(5).and_then(|s| s.parse().ok()).unwrap_or(1);
    std::panic::set_hook(Box::new(|_| {}));
    let alpha = alphabet();
    let mut stats = Stats::default();
    // exhaustive part: sharded on the first operation (plus optional leading trivia)
    let mut firsts: Vec<Vec<Op>> = vec![];
    for a in alpha.iter() {
        firsts.push(vec![*a]);
        firsts.push(vec![Op::Lead(1), *a]);
    }
    for (i, f) in firsts.iter().enumerate() {
        if i % nshards != shard { continue; }
        let mut h = f.clone();
        let m = if f.len() == 2 { max.saturating_sub(0) } else { max };
        dfs(&mut h, m, &alpha, &mut stats);
    }
    let exhaustive = stats.histories;
    random_histories(seed.wrapping_mul(0x9E3779B97F4A7C15).wrapping_add(shard as u64), nrand, 48, &alpha, &mut stats);
    let mut out = format!("{{\"exhaustive_histories\":{},\"random_histories\":{},\"with_insert\":{},\"with_truncate\":{},\"nodes_compared\":{},\"max_len\":{},\"mismatches\":[",
        exhaustive, stats.histories - exhaustive, stats.with_insert, stats.with_truncate, stats.nodes, max);
    for (i, (h, m)) in stats.mismatches.iter().enumerate() {
        if i > 0 { out.push(','); }
        out.push_str(&format!("{{\"history\":{:?},\"what\":{:?}}}", h, m));
    }
    out.push_str("]}");
    println!("{out}");
}
