//! shared by all grammar modules of an arena
use std::cell::RefCell;

thread_local! {
    static LAST_LOC: RefCell<String> = const { RefCell::new(String::new()) };
}

pub fn install_hook() {
    std::panic::set_hook(Box::new(|info| {
        let loc = info.location().map(|l| format!("{}:{}", l.file(), l.line())).unwrap_or_default();
        LAST_LOC.with(|p| *p.borrow_mut() = loc);
    }));
}

pub fn take_panic_loc() -> String {
    LAST_LOC.with(|p| std::mem::take(&mut *p.borrow_mut()))
}
