// arena: one module per generated parser; jobs on stdin (tab separated), one JSON result per line
#![allow(clippy::all)]
#![allow(unused_variables, unused_mut, unreachable_patterns, non_camel_case_types, dead_code, unused_parens)]
use std::io::{BufRead, Write};
use std::sync::atomic::{AtomicU64, Ordering};
mod common;

static JOB_STARTED_MS: AtomicU64 = AtomicU64::new(0);
static JOB_SEQ: AtomicU64 = AtomicU64::new(0);

/// CPU time consumed by this process so far (ms).  The watchdog budgets CPU time, not wall-clock time: on a loaded
/// machine a starved job does not run out of budget, a spinning one does.
fn now_ms() -> u64 {
    if let Ok(s) = std::fs::read_to_string("/proc/self/stat") {
        if let Some(rest) = s.rsplit(')').next() {
            let f: Vec<&str> = rest.split_whitespace().collect();
            if f.len() > 12 {
                let ticks = f[11].parse::<u64>().unwrap_or(0) + f[12].parse::<u64>().unwrap_or(0);
                return ticks * 10 + 1;
            }
        }
    }
    std::time::SystemTime::now().duration_since(std::time::UNIX_EPOCH).unwrap().as_millis() as u64
}

fn unescape(s: &str) -> String {
    let mut o = String::new();
    let mut it = s.chars();
    while let Some(c) = it.next() {
        if c == '\\' {
            match it.next() {
                Some('n') => o.push('\n'),
                Some('t') => o.push('\t'),
                Some('\\') => o.push('\\'),
                Some(c) => o.push(c),
                None => {}
            }
        } else {
            o.push(c);
        }
    }
    o
}

fn main() {
    common::install_hook();
    let budget_ms: u64 = std::env::args().nth(1).and_then(|s| s.parse().ok()).unwrap_or(20000);
    // watchdog: a job that runs longer than the budget is reported and the process exits; the
    // harness restarts after that job.  (A wall-clock expiry is never a verdict by itself.)
    // (Miri insists on every thread being joined and interprets far too slowly for a wall-clock budget)
    if !cfg!(miri) { std::thread::spawn(move || loop {
        std::thread::sleep(std::time::Duration::from_millis(200));
        let st = JOB_STARTED_MS.load(Ordering::SeqCst);
        if st != 0 && now_ms() > st + budget_ms {
            let seq = JOB_SEQ.load(Ordering::SeqCst);
            let out = std::io::stdout();
            let mut o = out.lock();
            let _ = writeln!(o, "{{\"hang_seq\":{seq}}}");
            let _ = o.flush();
            std::process::exit(9);
        }
    }); }
    let worker = std::thread::Builder::new().stack_size(1 << 28).spawn(|| {
        let stdin = std::io::stdin();
        let out = std::io::stdout();
        let mut last_spin: Option<String> = None;
        for (seq, line) in stdin.lock().lines().enumerate() {
            let Ok(line) = line else { break };
            let f: Vec<&str> = line.splitn(7, '\t').collect();
            if f.len() < 7 {
                continue;
            }
            let (id, module, entry) = (f[0], f[1], f[2]);
            let seed: u64 = f[3].parse().unwrap_or(1);
            let pm: u8 = f[4][0..1].parse().unwrap_or(0);
            let am: u8 = f[4][1..2].parse().unwrap_or(0);
            let _ = f[5];
            let src = unescape(f[6]);
            JOB_SEQ.store(seq as u64, Ordering::SeqCst);
            // the probed twin of an input runs first; if its probes proved a livelock / runaway recursion, the
            // twins without probes would only spin until the watchdog fires: they are skipped
            let key = format!("{}|{}", module.trim_end_matches('p').split('v').next().unwrap_or(""), id.split_once('|').map_or("", |x| x.1));
            if module.ends_with('p') {
                last_spin = None;
            } else if last_spin.as_deref() == Some(key.as_str()) {
                let mut o = out.lock();
                let _ = writeln!(o, "{{\"id\":\"{}\",\"skipped\":\"probed twin proved non-termination on this input\"}}", id);
                let _ = o.flush();
                continue;
            }
            JOB_STARTED_MS.store(now_ms(), Ordering::SeqCst);
            let res = run(module, id, entry, seed, pm, am, &src);
            JOB_STARTED_MS.store(0, Ordering::SeqCst);
            if module.ends_with('p') && (res.contains("VERIF-LIVELOCK") || res.contains("VERIF-RECURSION")) {
                last_spin = Some(key);
            }
            let mut o = out.lock();
            let _ = writeln!(o, "{res}");
            let _ = o.flush();
        }
    }).unwrap();
    let _ = worker.join();
}
