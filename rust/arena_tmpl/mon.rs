// ---------------------------------------------------------------------------------------------
// Monitor code, include!d into every grammar module *after* `generated.rs` (so it sees that
// module's Token / Rule / Cst / Parser).  Everything a user could write next to the generated
// parser is used here: the ParserCallbacks trait, the public Cst API (children / get / span) and
// the callback-visible parser fields the repository's own examples use (cst, pos, tokens, current,
// context, peek, peek_left).  The probe_* methods are only called from the *probed twin* of the
// emitted parser text; in the pristine twin they are dead code.
// ---------------------------------------------------------------------------------------------

#[allow(dead_code)]
pub struct Diag {
    pub span: Span,
    pub msg: String,
    pub kind: u8, // 0 = syntax diagnostic made by create_diagnostic, 1 = assertion
}

#[derive(Default)]
pub struct Log {
    pub ev: std::cell::RefCell<String>,            // compact callback trace
    pub online: std::cell::RefCell<Vec<String>>,   // online monitor violations
    pub rng: std::cell::Cell<u64>,
    pub pred_mode: std::cell::Cell<u8>,            // 0 random, 1 always true, 2 always false
    pub assert_mode: std::cell::Cell<u8>,          // 0 random (p=1/4), 1 never fails, 2 always fails
    pub toks: std::cell::RefCell<Vec<Token>>,
    pub spans: std::cell::RefCell<Vec<Span>>,
    pub made_diags: std::cell::Cell<u32>,          // create_diagnostic calls (muted ones included)
    pub n_pred: std::cell::Cell<u32>,
    pub n_action: std::cell::Cell<u32>,
    pub n_assert_fail: std::cell::Cell<u32>,
    pub created: std::cell::RefCell<Vec<(String, usize, usize, String)>>, // kind, first tok, last tok+1, dump
    pub deleted: std::cell::RefCell<Vec<String>>,
    // probes
    pub snap: std::cell::RefCell<Option<(String, usize, String, usize, u64, bool, bool)>>,
    pub n_snap: std::cell::Cell<u32>,
    pub n_restore: std::cell::Cell<u32>,
    pub n_restore_flagdiff: std::cell::Cell<u32>,
    pub in_attempt: std::cell::Cell<bool>,
    pub loop_acts: std::cell::RefCell<std::collections::HashMap<u64, (usize, u32)>>,
    pub loop_next: std::cell::Cell<u64>,
    pub rule_last: std::cell::Cell<(usize, u32)>,
    pub n_loop: std::cell::Cell<u64>,
    pub n_rule: std::cell::Cell<u64>,
    pub alts: std::cell::RefCell<String>,
    pub big: std::cell::Cell<bool>,
    pub eof: std::cell::Cell<Option<Token>>,
}

#[derive(Default, Clone)]
pub struct Ctx {
    pub log: std::rc::Rc<Log>,
}

#[allow(dead_code)]
impl Log {
    fn next(&self) -> u64 {
        // xorshift64*
        let mut x = self.rng.get();
        if x == 0 {
            x = 0x9E3779B97F4A7C15;
        }
        x ^= x >> 12;
        x ^= x << 25;
        x ^= x >> 27;
        self.rng.set(x);
        x.wrapping_mul(0x2545F4914F6CDD1D)
    }
    fn violation(&self, s: String) {
        let mut v = self.online.borrow_mut();
        if v.len() < 8 {
            v.push(s);
        }
    }
}

fn diag_hash(diags: &[Diag]) -> u64 {
    let mut h: u64 = 1469598103934665603;
    for d in diags {
        for b in d.msg.bytes().chain([d.kind, 0xff]).chain((d.span.start as u32).to_le_bytes()).chain((d.span.end as u32).to_le_bytes()) {
            h ^= b as u64;
            h = h.wrapping_mul(1099511628211);
        }
    }
    h
}

#[allow(dead_code)]
impl<'a> Parser<'a> {
    // ---- callbacks -------------------------------------------------------------------------
    fn mon_diag(&self, span: Span, message: String) -> Diag {
        let log = &self.context.log;
        log.made_diags.set(log.made_diags.get() + 1);
        Diag { span, msg: message, kind: 0 }
    }
    fn mon_pred(&self, name: &str) -> bool {
        let log = &self.context.log;
        log.n_pred.set(log.n_pred.get() + 1);
        // C16: lookahead offered to predicates never sees a skipped token, and is the k-th
        // non-skipped token from the cursor (computed here from the lexer output, independently)
        {
            let toks = log.toks.borrow();
            let eof = log.eof.get();
            let ahead: Vec<Token> = toks.iter().skip(self.pos).copied().filter(|t| !tok_is_trivia(*t)).take(4).collect();
            for k in 0..4usize {
                let got = self.peek(k);
                let want = ahead.get(k).copied().or(eof);
                if tok_is_trivia(got) || (want.is_some() && Some(got) != want) {
                    log.violation(format!("C16 peek({k}) at pos {} returned {:?}, expected {:?} (k-th non-skipped token from the cursor)", self.pos, got, want));
                }
            }
            if self.peek(0) != self.current {
                log.violation(format!("C16 peek(0) {:?} != current {:?} at pos {}", self.peek(0), self.current, self.pos));
            }
            let behind: Vec<Token> = toks.iter().take((self.pos + 1).min(toks.len())).rev().copied().filter(|t| !tok_is_trivia(*t)).take(2).collect();
            for k in 0..2usize {
                let got = self.peek_left(k);
                let want = behind.get(k).copied().or(eof);
                if tok_is_trivia(got) || (want.is_some() && Some(got) != want) {
                    log.violation(format!("C16 peek_left({k}) at pos {} returned {:?}, expected {:?}", self.pos, got, want));
                }
            }
        }
        let res = match log.pred_mode.get() {
            1 => true,
            2 => false,
            _ => log.next() & 1 == 1,
        };
        let mut ev = log.ev.borrow_mut();
        if ev.len() < 4000 {
            ev.push_str(&format!("P:{name}@{}={} ", self.pos, res as u8));
        }
        res
    }
    fn mon_action(&mut self, name: &str, diags: &mut Vec<Diag>) {
        let log = &self.context.log;
        log.n_action.set(log.n_action.get() + 1);
        if log.in_attempt.get() && self.in_ordered_choice {
            log.violation(format!("C08 action {name} ran inside an ordered-choice attempt that can still be undone (pos {})", self.pos));
        }
        let mut ev = log.ev.borrow_mut();
        if ev.len() < 4000 {
            ev.push_str(&format!("A:{name}@{}/{} ", self.pos, diags.len()));
        }
    }
    fn mon_assert(&self, name: &str) -> Option<Diag> {
        let log = &self.context.log;
        let fail = match log.assert_mode.get() {
            1 => false,
            2 => true,
            _ => log.next() & 3 == 0,
        };
        let mut ev = log.ev.borrow_mut();
        if ev.len() < 4000 {
            ev.push_str(&format!("S:{name}@{}={} ", self.pos, fail as u8));
        }
        if fail {
            log.n_assert_fail.set(log.n_assert_fail.get() + 1);
            let sp = self.span();
            Some(Diag { span: sp, msg: format!("assertion {name}"), kind: 1 })
        } else {
            None
        }
    }
    fn mon_create(&mut self, kind: &str, node_ref: NodeRef) {
        let log = self.context.log.clone();
        if log.big.get() {
            return;
        }
        // C02: the announced node already has the announced kind and a complete subtree
        match self.cst.get(node_ref) {
            Node::Rule(r, _) => {
                let k = format!("{r:?}");
                if k != kind {
                    log.violation(format!("C02 create_node_{kind} announced a node of kind {k}"));
                }
            }
            Node::Token(t, _) => log.violation(format!("C02 create_node_{kind} announced token {t:?}")),
        }
        let mut dump = String::new();
        let mut first = usize::MAX;
        let mut last = 0usize;
        let ok = std::panic::catch_unwind(std::panic::AssertUnwindSafe(|| {
            dump_node(&self.cst, node_ref, &mut dump, &mut first, &mut last, 0);
        }));
        if ok.is_err() {
            log.violation(format!("C02 walking the subtree announced by create_node_{kind} panics"));
            return;
        }
        if first == usize::MAX {
            first = 0;
            last = 0;
        }
        log.created.borrow_mut().push((kind.to_string(), first, last, dump));
    }
    fn mon_delete(&mut self, kind: &str, _node_ref: NodeRef) {
        self.context.log.deleted.borrow_mut().push(kind.to_string());
    }

    // ---- probes (probed twin only) ------------------------------------------------------------
    fn probe_snap(&self, diags: &[Diag]) {
        let log = &self.context.log;
        log.n_snap.set(log.n_snap.get() + 1);
        log.in_attempt.set(true);
        if log.big.get() {
            return;
        }
        *log.snap.borrow_mut() = Some((
            format!("{:?}", self.cst),
            self.pos,
            format!("{:?}", self.current),
            diags.len(),
            diag_hash(diags),
            self.error_since_advance,
            self.error_node.is_some(),
        ));
    }
    fn probe_restore(&self, diags: &[Diag]) {
        let log = &self.context.log;
        log.n_restore.set(log.n_restore.get() + 1);
        if log.big.get() {
            return;
        }
        if let Some(s) = log.snap.borrow().as_ref() {
            let now = format!("{:?}", self.cst);
            if now != s.0 {
                log.violation(format!("C08 tree after restore differs from the tree before the attempt (pos {})", s.1));
            }
            if self.pos != s.1 || format!("{:?}", self.current) != s.2 {
                log.violation(format!("C08 position after restore {}:{:?} differs from before the attempt {}:{}", self.pos, self.current, s.1, s.2));
            }
            if diags.len() != s.3 || diag_hash(diags) != s.4 {
                log.violation(format!("C08 diagnostics after restore differ from before the attempt ({} vs {})", diags.len(), s.3));
            }
            if self.error_since_advance != s.5 || self.error_node.is_some() != s.6 {
                log.n_restore_flagdiff.set(log.n_restore_flagdiff.get() + 1);
                log.violation(format!("C08 active error state after restore (error_since_advance {}, open error node {}) differs from before the attempt ({}, {}) at pos {}", self.error_since_advance, self.error_node.is_some(), s.5, s.6, s.1));
            }
        } else {
            log.violation("C08 restore without a snapshot".to_string());
        }
    }
    fn probe_alt(&self, site: u32, alt: i32) {
        let log = &self.context.log;
        log.in_attempt.set(false);
        let mut a = log.alts.borrow_mut();
        if a.len() < 2000 {
            a.push_str(&format!("{site}:{alt} "));
        }
    }
    fn probe_loop_enter(&self, _site: u32) -> u64 {
        // a new dynamic activation of a loop (possibly nested in a recursion of the same site)
        let log = &self.context.log;
        let a = log.loop_next.get() + 1;
        log.loop_next.set(a);
        a
    }
    fn probe_loop(&self, site: u32, act: u64) {
        let log = &self.context.log;
        log.n_loop.set(log.n_loop.get() + 1);
        let ntok = log.toks.borrow().len();
        if self.pos > ntok + 1 {
            panic!("VERIF-LIVELOCK cursor ran past the end of input: pos {} > {} tokens (loop site {site})", self.pos, ntok);
        }
        // one activation of one loop iterating 64 times at the same input position: the parser is
        // deterministic and its remaining state is a few flags, so it will never leave
        let mut acts = log.loop_acts.borrow_mut();
        let e = acts.entry(act).or_insert((self.pos, 0));
        if e.0 == self.pos {
            e.1 += 1;
            if e.1 > 64 {
                panic!("VERIF-LIVELOCK loop site {site} iterated 64 times at pos {} without consuming", self.pos);
            }
        } else {
            *e = (self.pos, 1);
        }
    }
    fn probe_rule(&self, name: &str) {
        let log = &self.context.log;
        log.n_rule.set(log.n_rule.get() + 1);
        let (p, n) = log.rule_last.get();
        if p == self.pos {
            if n >= 20000 {
                panic!("VERIF-RECURSION rule {name} entered 20000 times at pos {} without consuming", self.pos);
            }
            log.rule_last.set((p, n + 1));
        } else {
            log.rule_last.set((self.pos, 1));
        }
    }
}

fn tok_is_trivia(t: Token) -> bool {
    t == Token::Error || SKIPPED.contains(&t)
}

/// compact dump through the public API only: `(kind child..)` for rules, token names for tokens
fn dump_node(cst: &Cst<'_>, n: NodeRef, out: &mut String, first: &mut usize, last: &mut usize, depth: usize) {
    if depth > 5000 {
        panic!("dump depth");
    }
    match cst.get(n) {
        Node::Rule(r, _) => {
            out.push('(');
            out.push_str(&format!("{r:?}"));
            for c in cst.children(n) {
                out.push(' ');
                dump_node(cst, c, out, first, last, depth + 1);
            }
            out.push(')');
        }
        Node::Token(t, idx) => {
            out.push_str(&format!("{t:?}"));
            let i = usize::from(idx);
            if *first == usize::MAX {
                *first = i;
            }
            *last = i + 1;
        }
    }
}

pub struct TreeFacts {
    pub dump: String,
    pub rule_nodes: Vec<(String, usize, usize, String)>,
    pub problems: Vec<String>,
    pub n_error_nodes: u32,
    pub n_empty_nodes: u32,
    pub n_rules: u32,
}

/// true if a token node is found below `n` (bounded: depth 64, `budget` nodes; false when the bound is hit first)
fn holds_token(cst: &Cst<'_>, n: NodeRef, depth: usize, budget: &mut usize) -> bool {
    if depth > 64 || *budget == 0 {
        return false;
    }
    *budget -= 1;
    match cst.get(n) {
        Node::Token(..) => true,
        Node::Rule(..) => {
            for c in cst.children(n) {
                if holds_token(cst, c, depth + 1, budget) {
                    return true;
                }
            }
            false
        }
    }
}

/// C01 + C02 online: walks the returned tree through children / get / span only.
pub fn check_tree(cst: &Cst<'_>, toks: &[Token], spans: &[Span], source: &str, collect_nodes: bool) -> TreeFacts {
    let mut f = TreeFacts { dump: String::new(), rule_nodes: vec![], problems: vec![], n_error_nodes: 0, n_empty_nodes: 0, n_rules: 0 };
    let mut next_tok = 0usize;
    let mut visited = std::collections::HashSet::new();
    let mut text = String::new();
    // returns (max NodeRef in subtree)
    fn walk(cst: &Cst<'_>, n: NodeRef, is_root: bool, depth: usize, toks: &[Token], spans: &[Span], source: &str,
            next_tok: &mut usize, visited: &mut std::collections::HashSet<usize>, f: &mut TreeFacts, text: &mut String,
            collect: bool) -> usize {
        if depth > 100000 {
            f.problems.push("C02 tree deeper than 100000".into());
            return n.0;
        }
        if !visited.insert(n.0) {
            f.problems.push(format!("C02 node {} reachable twice", n.0));
            // C01: a plain depth-first walk (no visited set) descends into this node again; if it holds a
            // token, that token is visited more than once
            let mut budget = 4096usize;
            if holds_token(cst, n, 0, &mut budget) {
                f.problems.push(format!("C01 node {} is reached twice by a depth-first walk and holds a token: that token is visited more than once", n.0));
            }
            return n.0;
        }
        match cst.get(n) {
            Node::Token(t, _) => {
                let sp = cst.span(n);
                if *next_tok >= toks.len() {
                    if f.problems.len() < 6 {
                        f.problems.push(format!("C01 tree holds more tokens than the input ({} tokens): extra {t:?} {sp:?}", toks.len()));
                    }
                } else {
                    if toks[*next_tok] != t {
                        if f.problems.len() < 6 {
                            f.problems.push(format!("C01 token #{} in the tree is {t:?}, input has {:?}", *next_tok, toks[*next_tok]));
                        }
                    }
                    if spans[*next_tok] != sp {
                        if f.problems.len() < 6 {
                            f.problems.push(format!("C01 token #{} has span {sp:?} in the tree, {:?} in the input", *next_tok, spans[*next_tok]));
                        }
                    }
                }
                if sp.start <= sp.end && sp.end <= source.len() && source.is_char_boundary(sp.start) && source.is_char_boundary(sp.end) {
                    text.push_str(&source[sp.clone()]);
                }
                *next_tok += 1;
                f.dump.push_str(&format!("{t:?}"));
                n.0
            }
            Node::Rule(r, _) => {
                f.n_rules += 1;
                let kind = format!("{r:?}");
                if kind == "error" {
                    f.n_error_nodes += 1;
                }
                let my_span = cst.span(n);
                let first_tok = *next_tok;
                let dump_start = f.dump.len();
                f.dump.push('(');
                f.dump.push_str(&kind);
                let kids: Vec<NodeRef> = cst.children(n).collect();
                let mut maxref = n.0;
                let mut prev_end = my_span.start;
                let mut prev_ref = n.0;
                for (i, c) in kids.iter().enumerate() {
                    if c.0 <= prev_ref {
                        f.problems.push(format!("C02 child refs of node {} not strictly increasing ({} after {})", n.0, c.0, prev_ref));
                    }
                    if c.0 <= maxref && i > 0 {
                        f.problems.push(format!("C02 sibling extents overlap under node {}: child {} starts inside the previous sibling (extent up to {})", n.0, c.0, maxref));
                    }
                    prev_ref = c.0;
                    f.dump.push(' ');
                    let csp = cst.span(*c);
                    let m = walk(cst, *c, false, depth + 1, toks, spans, source, next_tok, visited, f, text, collect);
                    if m > maxref {
                        maxref = m;
                    }
                    if csp.start < my_span.start || csp.end > my_span.end {
                        f.problems.push(format!("C02 child span {csp:?} not inside parent span {my_span:?} (node {})", n.0));
                    }
                    if csp.start < prev_end {
                        f.problems.push(format!("C02 child span {csp:?} starts before the previous sibling ends ({prev_end}) under node {}", n.0));
                    }
                    if csp.start > csp.end {
                        f.problems.push(format!("C02 span {csp:?} has start > end"));
                    }
                    prev_end = csp.end.max(prev_end);
                }
                f.dump.push(')');
                if kids.is_empty() {
                    f.n_empty_nodes += 1;
                    let want = if first_tok == 0 { 0 } else { spans[(first_tok - 1).min(spans.len().saturating_sub(1))].end };
                    if !spans.is_empty() && first_tok <= spans.len() && (my_span.start != my_span.end || my_span.start != want) {
                        f.problems.push(format!("C02 empty node {} ({kind}) has span {my_span:?}, expected {want}..{want}", n.0));
                    }
                } else if !is_root {
                    if let Node::Token(t, _) = cst.get(kids[0]) {
                        if tok_is_trivia(t) {
                            f.problems.push(format!("C02 rule node {} ({kind}) starts with skipped token {t:?}", n.0));
                        }
                    }
                    if let Node::Token(t, _) = cst.get(*kids.last().unwrap()) {
                        if tok_is_trivia(t) {
                            f.problems.push(format!("C02 rule node {} ({kind}) ends with skipped token {t:?}", n.0));
                        }
                    }
                }
                if collect {
                    let d = f.dump[dump_start..].to_string();
                    f.rule_nodes.push((kind, first_tok, *next_tok, d));
                }
                maxref
            }
        }
    }
    let res = std::panic::catch_unwind(std::panic::AssertUnwindSafe(|| {
        walk(cst, NodeRef::ROOT, true, 0, toks, spans, source, &mut next_tok, &mut visited, &mut f, &mut text, collect_nodes);
    }));
    if res.is_err() {
        f.problems.push("C01 walking the tree through children/get/span panics (node refers outside the token table)".into());
        return f;
    }
    if next_tok != toks.len() {
        f.problems.push(format!("C01 walk visited {} tokens, the input has {}", next_tok, toks.len()));
    }
    if f.problems.is_empty() && text != source {
        f.problems.push("C01 concatenated token texts of the walk differ from the source".into());
    }
    let disp = std::panic::catch_unwind(std::panic::AssertUnwindSafe(|| format!("{cst}").len()));
    if disp.is_err() {
        f.problems.push("C01 Display of the tree panics".into());
    }
    f
}

fn esc(s: &str) -> String {
    let mut o = String::with_capacity(s.len() + 2);
    for c in s.chars() {
        match c {
            '"' => o.push_str("\\\""),
            '\\' => o.push_str("\\\\"),
            '\n' => o.push_str("\\n"),
            '\t' => o.push_str("\\t"),
            '\r' => o.push_str("\\r"),
            c if (c as u32) < 0x20 => o.push_str(&format!("\\u{:04x}", c as u32)),
            c => o.push(c),
        }
    }
    o
}

/// one job: `entry` = "" for the start rule, else a part name
pub fn run_job(id: &str, entry: &str, seed: u64, pred_mode: u8, assert_mode: u8, source: &str) -> String {
    let ctx = Ctx::default();
    let log = ctx.log.clone();
    log.rng.set(seed | 1);
    log.pred_mode.set(pred_mode);
    log.assert_mode.set(assert_mode);
    let mut diags: Vec<Diag> = vec![];
    let result = std::panic::catch_unwind(std::panic::AssertUnwindSafe(|| {
        let parser = Parser::new_with_context(source, &mut diags, ctx.clone());
        log.big.set(log.toks.borrow().len() > 300);
        dispatch(parser, entry, &mut diags)
    }));
    let mut out = String::with_capacity(512);
    out.push_str(&format!("{{\"id\":\"{}\"", esc(id)));
    match result {
        Err(e) => {
            let msg = if let Some(s) = e.downcast_ref::<&str>() { s.to_string() } else if let Some(s) = e.downcast_ref::<String>() { s.clone() } else { "?".into() };
            out.push_str(&format!(",\"panic\":\"{}\"", esc(&msg)));
            out.push_str(&format!(",\"loc\":\"{}\"", esc(&crate::common::take_panic_loc())));
        }
        Ok(None) => {
            out.push_str(",\"error\":\"unknown entry\"");
        }
        Ok(Some(cst)) => {
            let toks = log.toks.borrow();
            let spans = log.spans.borrow();
            let big = log.big.get();
            let facts = check_tree(&cst, &toks, &spans, source, !big);
            let mut problems = facts.problems.clone();
            // diagnostics: spans inside the source, start <= end
            for d in diags.iter() {
                if d.span.start > d.span.end || d.span.end > source.len() {
                    problems.push(format!("C06 diagnostic span {:?} outside the source (len {})", d.span, source.len()));
                }
            }
            // C02/C08 callbacks: created - deleted == rule nodes of the final tree (by kind); every
            // surviving announced subtree is found unchanged in the final tree
            let walk_failed = facts.problems.iter().any(|p| p.starts_with("C01 walking") || p.starts_with("C02 node") || p.starts_with("C01 tree holds"));
            if !big && !walk_failed {
                let created = log.created.borrow();
                let deleted = log.deleted.borrow();
                let mut count: std::collections::BTreeMap<String, (i64, i64, i64)> = Default::default();
                for c in created.iter() {
                    count.entry(c.0.clone()).or_default().0 += 1;
                }
                for d in deleted.iter() {
                    count.entry(d.clone()).or_default().1 += 1;
                }
                for n in facts.rule_nodes.iter() {
                    count.entry(n.0.clone()).or_default().2 += 1;
                }
                for (k, (c, d, fin)) in count.iter() {
                    if k == "error" {
                        // placeholders of still-open nodes are reported as deleted `error` nodes
                        if *fin > *c || *fin < c - d {
                            problems.push(format!("C08 error nodes: created {c}, deleted {d}, in the final tree {fin}"));
                        }
                    } else if c - d != *fin {
                        problems.push(format!("C08 `{k}` nodes: created {c} - deleted {d} != {fin} in the final tree"));
                    }
                }
                if deleted.is_empty() {
                    // without backtracking every announced subtree must be in the final tree as announced
                    let mut fin: std::collections::HashMap<(&str, usize, usize, &str), i32> = Default::default();
                    for n in facts.rule_nodes.iter() {
                        *fin.entry((n.0.as_str(), n.1, n.2, n.3.as_str())).or_default() += 1;
                    }
                    for c in created.iter() {
                        let (first, last) = (c.1, c.2);
                        let key = (c.0.as_str(), first, last, c.3.as_str());
                        let ok = if first == last {
                            // empty node: position is the number of tokens before it; match on kind + dump only
                            facts.rule_nodes.iter().any(|n| n.0 == c.0 && n.1 == n.2 && n.3 == c.3)
                        } else {
                            fin.get(&key).copied().unwrap_or(0) > 0
                        };
                        if !ok {
                            problems.push(format!("C02 subtree announced by create_node_{} (tokens {first}..{last}) is not in the final tree as announced: {}", c.0, &c.3.chars().take(80).collect::<String>()));
                            break;
                        }
                    }
                }
            }
            for p in log.online.borrow().iter() {
                problems.push(p.clone());
            }
            out.push_str(&format!(",\"n\":{},\"tree\":\"{}\"", toks.len(), if big { String::new() } else { esc(&facts.dump) }));
            out.push_str(",\"diags\":[");
            for (i, d) in diags.iter().enumerate() {
                if i > 0 {
                    out.push(',');
                }
                if i >= 50 {
                    out.push_str("[-1,-1,2]");
                    break;
                }
                out.push_str(&format!("[{},{},{}]", d.span.start, d.span.end, d.kind));
            }
            out.push(']');
            if let Some(d) = diags.first() {
                out.push_str(&format!(",\"msg0\":\"{}\"", esc(&d.msg)));
            }
            out.push_str(&format!(",\"made\":{},\"ev\":\"{}\",\"alts\":\"{}\"", log.made_diags.get(), esc(&log.ev.borrow()), esc(&log.alts.borrow())));
            out.push_str(&format!(",\"st\":[{},{},{},{},{},{},{},{},{},{},{}]", facts.n_rules, facts.n_error_nodes, facts.n_empty_nodes,
                log.created.borrow().len(), log.deleted.borrow().len(), log.n_snap.get(), log.n_restore.get(), log.n_restore_flagdiff.get(),
                log.n_loop.get(), log.n_rule.get(), log.n_pred.get()));
            out.push_str(",\"problems\":[");
            for (i, p) in problems.iter().take(6).enumerate() {
                if i > 0 {
                    out.push(',');
                }
                out.push_str(&format!("\"{}\"", esc(p)));
            }
            out.push(']');
        }
    }
    out.push('}');
    out
}
